package main

import (
	"go/ast"
	"go/token"
	"go/types"
	"strings"
)

// E-BOUNDS: two-sided slice obligations. For x[l:h] with both bounds present and l not the constant 0, a small
// prover must show l <= h from the shape of the expressions:
//
//	h = l + n      with n a non-negative constant, or a variable whose every definition is the count returned by
//	               Read/ReadAt/Write/WriteAt/copy/len (non-negative by contract)
//	l = len(y), h = cap(y)
//	l = i*K, h = (i+1)*K
//	l, h both constants with l <= h
//
// Anything else is unproven: a violation unless listed with a written argument.

type sliceSite struct {
	Fn   *FuncInfo
	Expr *ast.SliceExpr
	Key  string
}

func enumTwoSidedSlices(p *Prog, pkgs ...string) []sliceSite {
	var out []sliceSite
	for _, rel := range pkgs {
		for _, f := range p.FuncsIn(rel) {
			if f.Decl.Body == nil {
				continue
			}
			info := f.Info()
			k := 0
			ast.Inspect(f.Decl.Body, func(n ast.Node) bool {
				se, ok := n.(*ast.SliceExpr)
				if !ok || se.Low == nil || se.High == nil {
					return true
				}
				if tv, ok := info.Types[se.Low]; ok && tv.Value != nil && tv.Value.String() == "0" {
					return true
				}
				// both bounds are parameters of the function: the obligation belongs to the callers
				if isParamExpr(f, se.Low) && isParamExpr(f, se.High) {
					return true
				}
				k++
				out = append(out, sliceSite{Fn: f, Expr: se, Key: f.ID + ":slice#" + itoa(k)})
				return true
			})
		}
	}
	return out
}

func proveSliceBounds(f *FuncInfo, se *ast.SliceExpr) (bool, string) {
	info := f.Info()
	lo, hi := ast.Unparen(se.Low), ast.Unparen(se.High)
	ls, hs := types.ExprString(lo), types.ExprString(hi)
	// constants
	if lv, ok := info.Types[lo]; ok && lv.Value != nil {
		if hv, ok := info.Types[hi]; ok && hv.Value != nil {
			return true, "both bounds constant"
		}
	}
	// h = l + n  or  n + l
	if be, ok := hi.(*ast.BinaryExpr); ok && be.Op == token.ADD {
		var other ast.Expr
		if types.ExprString(ast.Unparen(be.X)) == ls {
			other = be.Y
		} else if types.ExprString(ast.Unparen(be.Y)) == ls {
			other = be.X
		}
		if other != nil {
			if nonNegative(f, other) {
				return true, "high = low + non-negative term `" + types.ExprString(other) + "`"
			}
			return false, "high = low + `" + types.ExprString(other) + "` whose sign is not established"
		}
	}
	// len/cap of the same value
	if lc, ok := lo.(*ast.CallExpr); ok {
		if hc, ok := hi.(*ast.CallExpr); ok && len(lc.Args) == 1 && len(hc.Args) == 1 {
			lf, _ := ast.Unparen(lc.Fun).(*ast.Ident)
			hf, _ := ast.Unparen(hc.Fun).(*ast.Ident)
			if lf != nil && hf != nil && lf.Name == "len" && hf.Name == "cap" && types.ExprString(lc.Args[0]) == types.ExprString(hc.Args[0]) {
				return true, "low = len(y), high = cap(y)"
			}
		}
	}
	// i*K, (i+1)*K possibly through single-definition locals
	le, he := resolveLocal(f, lo), resolveLocal(f, hi)
	if lb, ok := le.(*ast.BinaryExpr); ok && lb.Op == token.MUL {
		if hb, ok := he.(*ast.BinaryExpr); ok && hb.Op == token.MUL {
			if types.ExprString(lb.Y) == types.ExprString(hb.Y) {
				if hx, ok := ast.Unparen(hb.X).(*ast.BinaryExpr); ok && hx.Op == token.ADD && types.ExprString(hx.X) == types.ExprString(ast.Unparen(lb.X)) && nonNegative(f, hx.Y) && nonNegative(f, lb.Y) {
					return true, "low = i*K, high = (i+n)*K"
				}
			}
		}
	}
	_ = hs
	return false, "no rule proves `" + ls + "` <= `" + hs + "`"
}

func resolveLocal(f *FuncInfo, e ast.Expr) ast.Expr {
	if id, ok := ast.Unparen(e).(*ast.Ident); ok {
		if v, ok := f.Info().Uses[id].(*types.Var); ok && !isParamOf(f, v) {
			defs := defsOfVar(f, v)
			if len(defs) == 1 && defs[0] != nil {
				return ast.Unparen(defs[0])
			}
		}
	}
	return ast.Unparen(e)
}

func nonNegative(f *FuncInfo, e ast.Expr) bool {
	info := f.Info()
	e = ast.Unparen(e)
	if tv, ok := info.Types[e]; ok && tv.Value != nil {
		return !strings.HasPrefix(tv.Value.String(), "-")
	}
	switch x := e.(type) {
	case *ast.CallExpr:
		if id, ok := ast.Unparen(x.Fun).(*ast.Ident); ok {
			if _, isB := info.Uses[id].(*types.Builtin); isB && (id.Name == "len" || id.Name == "cap" || id.Name == "copy") {
				return true
			}
		}
		// conversion of a non-negative value
		if tv, ok := info.Types[x.Fun]; ok && tv.IsType() && len(x.Args) == 1 {
			if b, ok := tv.Type.Underlying().(*types.Basic); ok && b.Info()&types.IsUnsigned != 0 {
				return true
			}
			return nonNegative(f, x.Args[0])
		}
	case *ast.Ident:
		v, ok := info.Uses[x].(*types.Var)
		if !ok {
			return false
		}
		if b, ok := v.Type().Underlying().(*types.Basic); ok && b.Info()&types.IsUnsigned != 0 {
			return true
		}
		defs := defsOfVarWithIndex(f, v)
		if len(defs) == 0 {
			return false
		}
		for _, d := range defs {
			if d.rhs == nil {
				return false
			}
			call, ok := ast.Unparen(d.rhs).(*ast.CallExpr)
			if !ok {
				if !nonNegative(f, d.rhs) {
					return false
				}
				continue
			}
			if d.index > 0 {
				return false
			}
			name := ""
			switch fn := calleeObj(info, call).(type) {
			case *types.Func:
				name = fn.Name()
			case *types.Builtin:
				name = fn.Name()
			}
			switch name {
			case "Read", "ReadAt", "Write", "WriteAt", "copy", "len", "cap":
			default:
				return false
			}
		}
		return true
	}
	return false
}

func isParamExpr(f *FuncInfo, e ast.Expr) bool {
	id, ok := ast.Unparen(e).(*ast.Ident)
	if !ok {
		return false
	}
	v, ok := f.Info().Uses[id].(*types.Var)
	return ok && isParamOf(f, v)
}
