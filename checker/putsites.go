package main

import (
	"go/ast"
	"go/token"
	"go/types"
	"sort"
	"strings"
)

// E-WMODE: enumeration of store write sites with their write mode and the kind of key they write.

// builderKinds maps the path builders of pkg/model (and a few others) to the kind of object the key names.
var builderKinds = map[string]string{
	"pkg/model.GetArchivePathToBundle":            "bundle-descriptor",
	"pkg/model.GetArchivePathToBundleFileList":    "bundle-filelist",
	"pkg/model.GetArchivePathToLabel":             "label",
	"pkg/model.GetArchivePathToRepoDescriptor":    "repo-descriptor",
	"pkg/model.GetArchivePathToDiamond":           "diamond-descriptor",
	"pkg/model.GetArchivePathToFinalDiamond":      "diamond-descriptor",
	"pkg/model.GetArchivePathToInitialDiamond":    "diamond-descriptor",
	"pkg/model.GetArchivePathToSplit":             "split-descriptor",
	"pkg/model.GetArchivePathToFinalSplit":        "split-descriptor",
	"pkg/model.GetArchivePathToInitialSplit":      "split-descriptor",
	"pkg/model.GetArchivePathToSplitFileList":     "split-filelist",
	"pkg/model.ReverseIndexFile":                  "reverse-index-chunk",
	"pkg/model.PurgeLock":                         "purge-lock",
	"pkg/model.GetConsumablePathToBundle":         "consumable-descriptor",
	"pkg/model.GetConsumablePathToBundleFileList": "consumable-filelist",
	"pkg/model.GetPathToContext":                  "context-descriptor",
}

type putSite struct {
	Fn       *FuncInfo
	Call     *ast.CallExpr
	Callee   string // resolved callee id
	Mode     string // "NoOverWrite" | "OverWrite" | "param:<name>" | "var:<name>" | "expr"
	ModeExpr ast.Expr
	Kind     string // key kind, "param:<name>", "blob", "index-iterator", or "expr:<text>"
	KeyExpr  ast.Expr
	Key      string // construct key
}

// writeCallees: callee id -> (index of key argument, index of mode argument)
var writeCallees = map[string][2]int{
	"pkg/storage.Store.Put":             {1, 3},
	"pkg/storage.StoreCRC.PutCRC":       {1, 3},
	"pkg/storage.MultiPut":              {2, 4},
	"pkg/core.metaObject.writeMetadata": {0, 1},
}

// paramIndexByName returns the index of the parameter of f with that name, or -1.
func paramIndexByName(f *FuncInfo, name string) int {
	sig, _ := f.Obj.Type().(*types.Signature)
	if sig == nil {
		return -1
	}
	for i := 0; i < sig.Params().Len(); i++ {
		if sig.Params().At(i).Name() == name {
			return i
		}
	}
	return -1
}

// enumPutSites lists every write site of the given packages (relative paths). A function of those packages that writes
// a key it received as a parameter is a write wrapper (writeMetadata is the hand-listed one; a helper extracted from a
// writer is found the same way): its calls are write sites too, with the key taken from the argument and the mode from
// the argument or from the wrapper's own constant.
func enumPutSites(p *Prog, pkgs ...string) []putSite {
	callees := map[string][2]int{}
	constMode := map[string]string{}
	for k, v := range writeCallees {
		callees[k] = v
	}
	out := enumPutSitesWith(p, callees, constMode, pkgs...)
	for round := 0; round < 2; round++ {
		grew := false
		for _, s := range out {
			if !strings.HasPrefix(s.Kind, "param:") {
				continue
			}
			if _, known := callees[s.Fn.ID]; known {
				continue
			}
			ki := paramIndexByName(s.Fn, strings.TrimPrefix(s.Kind, "param:"))
			if ki < 0 {
				continue
			}
			switch {
			case strings.HasPrefix(s.Mode, "param:"):
				if mi := paramIndexByName(s.Fn, strings.TrimPrefix(s.Mode, "param:")); mi >= 0 {
					callees[s.Fn.ID] = [2]int{ki, mi}
					grew = true
				}
			case s.Mode == "NoOverWrite" || s.Mode == "OverWrite":
				if prev, seen := constMode[s.Fn.ID]; seen && prev != s.Mode {
					constMode[s.Fn.ID] = "expr"
				} else if !seen {
					constMode[s.Fn.ID] = s.Mode
				}
				callees[s.Fn.ID] = [2]int{ki, -1}
				grew = true
			}
		}
		if !grew {
			break
		}
		out = enumPutSitesWith(p, callees, constMode, pkgs...)
	}
	return out
}

func enumPutSitesWith(p *Prog, callees map[string][2]int, constMode map[string]string, pkgs ...string) []putSite {
	var out []putSite
	for _, rel := range pkgs {
		for _, f := range p.FuncsIn(rel) {
			if f.Decl.Body == nil {
				continue
			}
			info := f.Info()
			n := map[string]int{}
			ast.Inspect(f.Decl.Body, func(nd ast.Node) bool {
				call, ok := nd.(*ast.CallExpr)
				if !ok {
					return true
				}
				id := calleeID(info, call)
				idx, ok := callees[id]
				if !ok || len(call.Args) <= idx[1] || len(call.Args) <= idx[0] {
					return true
				}
				s := putSite{Fn: f, Call: call, Callee: id, KeyExpr: call.Args[idx[0]]}
				if idx[1] >= 0 {
					s.ModeExpr = call.Args[idx[1]]
					s.Mode = resolveMode(f, call.Args[idx[1]])
				} else {
					s.ModeExpr = call.Args[idx[0]]
					s.Mode = constMode[id]
				}
				s.Kind = resolveKeyKind(f, call.Args[idx[0]], 0)
				n[id]++
				s.Key = f.ID + ":" + shortCallee(id) + "#" + itoa(n[id])
				out = append(out, s)
				return true
			})
		}
	}
	sort.Slice(out, func(i, j int) bool { return out[i].Key < out[j].Key })
	return out
}

func shortCallee(id string) string {
	if i := strings.LastIndex(id, "/"); i >= 0 {
		return id[i+1:]
	}
	return id
}

// resolveMode folds the overwrite argument: a constant, a parameter of the enclosing function, or a local
// variable (whose definitions the caller rule inspects).
func resolveMode(f *FuncInfo, e ast.Expr) string {
	info := f.Info()
	e = ast.Unparen(e)
	if tv, ok := info.Types[e]; ok && tv.Value != nil {
		if tv.Value.String() == "true" {
			return "NoOverWrite"
		}
		return "OverWrite"
	}
	if id, ok := e.(*ast.Ident); ok {
		if v, ok := info.Uses[id].(*types.Var); ok {
			if isParamOf(f, v) {
				return "param:" + v.Name()
			}
			return "var:" + v.Name()
		}
	}
	return "expr"
}

func isParamOf(f *FuncInfo, v *types.Var) bool {
	sig, _ := f.Obj.Type().(*types.Signature)
	if sig == nil {
		return false
	}
	for i := 0; i < sig.Params().Len(); i++ {
		if sig.Params().At(i) == v {
			return true
		}
	}
	return false
}

// resolveKeyKind classifies the key expression of a write.
func resolveKeyKind(f *FuncInfo, e ast.Expr, depth int) string {
	info := f.Info()
	e = ast.Unparen(e)
	switch x := e.(type) {
	case *ast.CallExpr:
		id := calleeID(info, x)
		if k, ok := builderKinds[id]; ok {
			return k
		}
		if strings.HasPrefix(id, "field:pather") || strings.HasPrefix(id, "var:pather") {
			return "blob"
		}
		if id == "pkg/core.indexIterator.Next" {
			return "index-iterator"
		}
		return "call:" + id
	case *ast.Ident:
		v, ok := info.Uses[x].(*types.Var)
		if !ok {
			return "expr:" + x.Name
		}
		if isParamOf(f, v) {
			return "param:" + v.Name()
		}
		if depth > 3 {
			return "var:" + v.Name()
		}
		kinds := map[string]bool{}
		for _, rhs := range defsOfVar(f, v) {
			if rhs == nil {
				kinds["unknown-def"] = true
				continue
			}
			kinds[resolveKeyKind(f, rhs, depth+1)] = true
		}
		// parameters of enclosing function literals
		if len(kinds) == 0 {
			if isLitParam(f, v) {
				return "litparam:" + v.Name()
			}
			return "var:" + v.Name()
		}
		var ks []string
		for k := range kinds {
			ks = append(ks, k)
		}
		sort.Strings(ks)
		return strings.Join(ks, "|")
	case *ast.SelectorExpr:
		return "expr:" + exprString(x)
	}
	return "expr:" + exprString(e)
}

func isLitParam(f *FuncInfo, v *types.Var) bool {
	for _, l := range f.Lits {
		if l.Type.Params == nil {
			continue
		}
		for _, fld := range l.Type.Params.List {
			for _, n := range fld.Names {
				if f.Info().Defs[n] == v {
					return true
				}
			}
		}
	}
	return false
}

// defsOfVar lists the right-hand sides assigned to local variable v anywhere in f (including literals). A nil
// entry stands for a definition whose value is not a single expression (tuple assignment, range, etc.).
func defsOfVar(f *FuncInfo, v *types.Var) []ast.Expr {
	info := f.Info()
	var out []ast.Expr
	ast.Inspect(f.Decl.Body, func(n ast.Node) bool {
		switch s := n.(type) {
		case *ast.AssignStmt:
			for i, l := range s.Lhs {
				id, ok := ast.Unparen(l).(*ast.Ident)
				if !ok {
					continue
				}
				if info.Defs[id] != v && info.Uses[id] != v {
					continue
				}
				if len(s.Lhs) == len(s.Rhs) && (s.Tok == token.ASSIGN || s.Tok == token.DEFINE) {
					out = append(out, s.Rhs[i])
				} else if len(s.Rhs) == 1 {
					// tuple-valued call: record the call itself with a marker
					out = append(out, s.Rhs[0])
				} else {
					out = append(out, nil)
				}
			}
		case *ast.ValueSpec:
			for i, id := range s.Names {
				if info.Defs[id] != v {
					continue
				}
				if i < len(s.Values) {
					out = append(out, s.Values[i])
				}
			}
		case *ast.RangeStmt:
			for _, l := range []ast.Expr{s.Key, s.Value} {
				if id, ok := l.(*ast.Ident); ok && (info.Defs[id] == v || info.Uses[id] == v) {
					out = append(out, nil)
				}
			}
		}
		return true
	})
	return out
}

// immutableKinds must be written create-if-absent.
var immutableKinds = map[string]bool{
	"bundle-descriptor": true, "bundle-filelist": true, "repo-descriptor": true, "diamond-descriptor": true,
	"split-descriptor": true, "split-filelist": true, "reverse-index-chunk": true, "context-descriptor": true,
	"index-iterator": true,
}
