package main

import (
	"go/ast"
	"go/token"
	"go/types"
	"strings"

	"golang.org/x/tools/go/cfg"
)

// E-ERR: error discipline. For every call in an anchored function body whose result includes an error bound to a
// variable v, the value must not be lost:
//
//	dropped      some path from the definition reaches a redefinition of v or the function exit without any use of v
//	             (this is also what a test of the WRONG variable looks like);
//	not-surfaced v is only ever tested and logged — no use propagates it (return, send, store into another
//	             variable/field, argument of a non-logging call, wrap) — and no test of v diverts control
//	             (return / break / continue / goto / panic) on the non-nil branch;
//	blank        the error result is assigned to _ or the call is an expression statement (reported only for the
//	             callees the caller asks for).
//
// Accepted idioms (enumerated from what the majority of sites in the repository do): early return, sendErr /
// reportError closures, xxxEvent{err: v} sends, wrap helpers, errors.Is / os.IsNotExist classification followed by
// one of the former, `_ = x.Close()` in defers (never reported: Close is not in any anchored callee set).

type errUseKind int

const (
	useTest      errUseKind = iota // appears in a condition / classification
	useLog                         // argument of a logging call
	usePropagate                   // return, send, assignment to something else, argument of a non-logging call
)

type errSite struct {
	Body   *Body
	Call   *ast.CallExpr
	Var    *types.Var
	Assign ast.Node // the defining statement
}

// logging callees: uses of an error only as an argument to these do not surface it
func isLoggingCall(info *types.Info, call *ast.CallExpr) bool {
	id := calleeID(info, call)
	if strings.HasPrefix(id, "go.uber.org/zap.") {
		return true
	}
	switch {
	case strings.HasPrefix(id, "log."), strings.HasPrefix(id, "fmt.Print"), strings.HasPrefix(id, "fmt.Fprint"):
		return true
	}
	return false
}

func isClassifierCall(info *types.Info, call *ast.CallExpr) bool {
	switch calleeID(info, call) {
	case "errors.Is", "errors.As", "pkg/errors.Is", "pkg/errors.As", "os.IsNotExist", "os.IsExist", "strings.Contains":
		return true
	}
	if fn, ok := calleeObj(info, call).(*types.Func); ok && fn.Name() == "Error" {
		return true // err.Error() inside a condition
	}
	return false
}

// classifyUse classifies one occurrence (identifier) of the error variable.
func (b *Body) classifyUse(id *ast.Ident) errUseKind {
	info := b.Info()
	var child ast.Node = id
	for x := b.parent[id]; x != nil; child, x = x, b.parent[x] {
		switch p := x.(type) {
		case *ast.CallExpr:
			if child == p.Fun {
				continue
			}
			if isLoggingCall(info, p) {
				return useLog
			}
			if isClassifierCall(info, p) {
				// classification: look further up whether it sits in a condition, otherwise treat as test
				continue
			}
			if sel, ok := ast.Unparen(p.Fun).(*ast.SelectorExpr); ok {
				if fn, ok := calleeObj(info, p).(*types.Func); ok && fn.Name() == "Error" && sel.X == child {
					continue
				}
			}
			return usePropagate
		case *ast.SelectorExpr:
			// v.Error(), v.(type) ...
			continue
		case *ast.ReturnStmt, *ast.SendStmt, *ast.CompositeLit, *ast.KeyValueExpr:
			if _, ok := x.(*ast.KeyValueExpr); ok {
				continue
			}
			return usePropagate
		case *ast.AssignStmt:
			// on the right-hand side: stored somewhere else
			for _, r := range p.Rhs {
				if r == child {
					return usePropagate
				}
			}
			return useTest
		case *ast.ValueSpec:
			return usePropagate
		case *ast.BinaryExpr, *ast.UnaryExpr, *ast.ParenExpr, *ast.TypeAssertExpr:
			continue
		case *ast.IfStmt, *ast.SwitchStmt, *ast.ForStmt, *ast.CaseClause, *ast.TypeSwitchStmt:
			return useTest
		case *ast.ExprStmt:
			return useTest
		case *ast.DeferStmt, *ast.GoStmt:
			return usePropagate
		case *ast.FuncLit:
			return usePropagate // captured by a closure: conservatively a propagation
		case ast.Stmt:
			return useTest
		}
	}
	return useTest
}

// errDefsIn lists the definitions of error variables from calls matching want (nil = every call returning an
// error) directly in body b (not in nested literals).
func (b *Body) errDefsIn(want func(id string) bool) (sites []errSite, blanks []*ast.CallExpr) {
	info := b.Info()
	ast.Inspect(b.Block, func(n ast.Node) bool {
		if l, ok := n.(*ast.FuncLit); ok && l != b.Lit {
			return false
		}
		switch s := n.(type) {
		case *ast.AssignStmt:
			if len(s.Rhs) != 1 {
				return true
			}
			call, ok := ast.Unparen(s.Rhs[0]).(*ast.CallExpr)
			if !ok {
				return true
			}
			id := calleeID(info, call)
			if want != nil && !want(id) {
				return true
			}
			idx := errResultIndexOfCall(info, call)
			if idx < 0 || idx >= len(s.Lhs) {
				return true
			}
			lid, ok := ast.Unparen(s.Lhs[idx]).(*ast.Ident)
			if !ok {
				return true // stored into a field etc.: propagated
			}
			if lid.Name == "_" {
				blanks = append(blanks, call)
				return true
			}
			var v *types.Var
			if d, ok := info.Defs[lid].(*types.Var); ok {
				v = d
			} else if u, ok := info.Uses[lid].(*types.Var); ok {
				v = u
			}
			if v != nil {
				sites = append(sites, errSite{Body: b, Call: call, Var: v, Assign: s})
			}
		case *ast.ExprStmt:
			if call, ok := ast.Unparen(s.X).(*ast.CallExpr); ok {
				id := calleeID(info, call)
				if want != nil && !want(id) {
					return true
				}
				if errResultIndexOfCall(info, call) >= 0 {
					blanks = append(blanks, call)
				}
			}
		}
		return true
	})
	return
}

func errResultIndexOfCall(info *types.Info, call *ast.CallExpr) int {
	switch t := info.TypeOf(call).(type) {
	case *types.Tuple:
		for i := t.Len() - 1; i >= 0; i-- {
			if isErrorType(t.At(i).Type()) {
				return i
			}
		}
	default:
		if isErrorType(t) {
			return 0
		}
	}
	return -1
}

type errVerdict struct {
	Site   errSite
	Kind   string // "ok" | "dropped" | "not-surfaced"
	Detail string
	Pos    token.Pos
}

// checkErrSite decides one definition site by a reaching-definition walk: which uses does THIS value reach
// before the variable is redefined?
func (b *Body) checkErrSite(s errSite) errVerdict {
	info := b.Info()
	v := s.Var
	namedResult := b.namedErrResult() == v || (b.Lit == nil && b.isNamedResult(v))
	// a variable declared outside the literal under analysis: a value still live at the literal's exit escapes
	// through the captured variable
	captured := b.Lit != nil && !(v.Pos() >= b.Lit.Pos() && v.Pos() < b.Lit.End())
	const (
		live   = 1  // the definition reaches this point
		unused = 2  // ... and has not been looked at on some path
		idle   = 4  // before the definition
		kNil   = 8  // ... and a test established it nil on some path reaching here
		kNon   = 16 // ... and a test established it non-nil on some path reaching here
		pend   = 32 // ... found non-nil by a test and not used in any way since (on some path)
	)
	defNil := func(st uint64) bool { return st&kNil != 0 && st&kNon == 0 } // certainly nil here
	defNon := func(st uint64) bool { return st&kNon != 0 && st&kNil == 0 } // certainly non-nil here
	clobbered := false
	var clobPos token.Pos
	startSeen := false
	dropped := false
	var dropPos token.Pos
	hasProp := false
	diverts := false
	b.run(flowSpec{
		entry: idle,
		node: func(n ast.Node, state uint64) uint64 {
			if n == s.Assign || containsNode(n, s.Assign) {
				startSeen = true
				return (state &^ (idle | kNil | kNon | pend)) | live | unused
			}
			if state&live == 0 {
				return state
			}
			used := false
			usedDirect := false // used by this statement itself (not merely captured by a closure that may run later)
			redefined := false
			propagatedHere := false
			ast.Inspect(n, func(m ast.Node) bool {
				if l, ok := m.(*ast.FuncLit); ok && l != b.Lit {
					if usesObj(info, l, v) {
						used = true
						hasProp = true // captured by a closure: conservatively a propagation
					}
					return false
				}
				if id, ok := m.(*ast.Ident); ok && info.Uses[id] == v {
					if isAssignTarget(b, id) {
						redefined = true
					} else {
						used = true
						usedDirect = true
						switch b.classifyUse(id) {
						case usePropagate:
							propagatedHere = true
						case useTest:
							if b.testDiverts(id, v) {
								diverts = true
							}
						}
					}
				}
				return true
			})
			if propagatedHere && !defNil(state) {
				hasProp = true // handing on an error that is certainly nil does not surface the failure
			}
			if r, ok := n.(*ast.ReturnStmt); ok {
				if namedResult && len(r.Results) == 0 {
					if !defNil(state) {
						hasProp = true
					}
					used = true
				}
				if !usedDirect && defNon(state) && state&pend != 0 && !clobbered && b.errResultIndex() >= 0 && b.classifyReturn(r) != retFailure {
					// (a return of another, certainly non-nil error maps the failure: fine)
					clobbered, clobPos = true, r.Pos()
				}
				if !used && state&unused != 0 {
					dropped = true
					if dropPos == token.NoPos {
						dropPos = r.Pos()
					}
				}
				return idle
			}
			if used {
				state &^= unused
			}
			if usedDirect {
				state &^= pend
			}
			if redefined {
				if state&unused != 0 {
					dropped = true
					if dropPos == token.NoPos {
						dropPos = n.Pos()
					}
				}
				if defNon(state) && state&pend != 0 && !usedDirect && !clobbered {
					clobbered, clobPos = true, n.Pos()
				}
				return (state &^ (live | unused | kNil | kNon | pend)) | idle
			}
			return state
		},
		edge: func(blk *cfg.Block, i int, state uint64) uint64 {
			if state&live == 0 {
				return state
			}
			cond := condOf(blk)
			if cond == nil {
				return state
			}
			var r int
			if i == 0 {
				r = condNilness(info, cond, v)
			} else {
				r = condNilnessWhenFalse(info, cond, v)
			}
			switch r {
			case +1:
				return (state &^ kNil) | kNon | pend
			case -1:
				return (state &^ (kNon | pend)) | kNil
			}
			return state
		},
		exit: func(blk *cfg.Block, ret *ast.ReturnStmt, state uint64) {
			if ret != nil || state&live == 0 {
				return
			}
			// control falls off the end of the body with the definition live
			if namedResult || captured {
				hasProp = true
				return
			}
			if state&unused != 0 {
				dropped = true
				if dropPos == token.NoPos {
					dropPos = b.Block.End()
				}
			}
		},
	})
	if !startSeen {
		return errVerdict{Site: s, Kind: "ok", Detail: "definition not reachable"}
	}
	if clobbered && !dropped {
		return errVerdict{Site: s, Kind: "continues-after-error", Pos: clobPos,
			Detail: "on the path where `" + v.Name() + "` was found non-nil (" + b.P.Pos(clobPos) + ") the function goes on — the variable is overwritten by the next step, or a return ignores it — instead of returning the error: the test has the wrong polarity or its failing branch does not divert"}
	}
	if dropped {
		return errVerdict{Site: s, Kind: "dropped", Pos: dropPos,
			Detail: "the error of this call can reach a redefinition of `" + v.Name() + "` or the function exit without ever being looked at (another variable is tested, or the check was removed)"}
	}
	if !hasProp && diverts && b.errResultIndex() < 0 && isGoLiteralOrWorker(b) {
		return errVerdict{Site: s, Kind: "not-surfaced", Pos: s.Call.Pos(),
			Detail: "this goroutine has no error result: leaving it on the non-nil branch without sending, storing or reporting the error of this call makes the failure invisible to whoever collects its results"}
	}
	if !hasProp && !diverts {
		return errVerdict{Site: s, Kind: "not-surfaced", Pos: s.Call.Pos(),
			Detail: "before `" + v.Name() + "` is overwritten or goes out of scope, the error of this call is only tested and/or logged: nothing returns it, sends it, stores it or stops the operation on the non-nil branch"}
	}
	return errVerdict{Site: s, Kind: "ok"}
}

func (b *Body) isNamedResult(v *types.Var) bool {
	if b.Sig == nil {
		return false
	}
	r := b.Sig.Results()
	for i := 0; i < r.Len(); i++ {
		if r.At(i) == v {
			return true
		}
	}
	// named result of the enclosing declared function captured by a literal
	if b.Lit != nil {
		if sig, ok := b.Fn.Obj.Type().(*types.Signature); ok {
			for i := 0; i < sig.Results().Len(); i++ {
				if sig.Results().At(i) == v {
					return true
				}
			}
		}
	}
	return false
}

func containsNode(outer, inner ast.Node) bool {
	if outer == inner {
		return true
	}
	found := false
	ast.Inspect(outer, func(n ast.Node) bool {
		if n == inner {
			found = true
		}
		return !found
	})
	return found
}

func isAssignTarget(b *Body, id *ast.Ident) bool {
	par := b.parent[id]
	if as, ok := par.(*ast.AssignStmt); ok {
		for _, l := range as.Lhs {
			if l == ast.Expr(id) {
				return true
			}
		}
	}
	return false
}

// reachesFrom: conservative — a use positioned after the definition, or anywhere inside a loop that encloses the
// definition, can see it.
func (b *Body) reachesFrom(def ast.Node, use ast.Node) bool {
	if use.Pos() >= def.Pos() {
		return true
	}
	for x := b.parent[def]; x != nil; x = b.parent[x] {
		switch x.(type) {
		case *ast.ForStmt, *ast.RangeStmt:
			if containsNode(x, use) {
				return true
			}
		}
	}
	return false
}

// testDiverts: id occurs in the condition of an if statement whose branch taken when v is non-nil ends by
// diverting control (return / continue / break / goto / panic), or in a switch/case that does.
func (b *Body) testDiverts(id *ast.Ident, v *types.Var) bool {
	info := b.Info()
	var child ast.Node = id
	for x := b.parent[id]; x != nil; child, x = x, b.parent[x] {
		ifs, ok := x.(*ast.IfStmt)
		if !ok {
			if _, ok := x.(ast.Stmt); ok {
				if _, isCase := x.(*ast.CaseClause); isCase {
					cc := x.(*ast.CaseClause)
					return blockDiverts(cc.Body)
				}
				if _, isExpr := x.(*ast.ExprStmt); !isExpr {
					return false
				}
			}
			continue
		}
		if child != ast.Node(ifs.Cond) && !containsNode(ifs.Cond, child) {
			return false
		}
		switch condNilness(info, ifs.Cond, v) {
		case +1:
			return blockDiverts(ifs.Body.List)
		case -1:
			if ifs.Else != nil {
				if eb, ok := ifs.Else.(*ast.BlockStmt); ok {
					return blockDiverts(eb.List)
				}
			}
			// `if err == nil { ... }` with the rest of the function after: does not divert
			return false
		}
		// classification (errors.Is(v, X), !errors.Is(...), os.IsNotExist(v)...): either branch diverting counts
		if blockDiverts(ifs.Body.List) {
			return true
		}
		if eb, ok := ifs.Else.(*ast.BlockStmt); ok && blockDiverts(eb.List) {
			return true
		}
		return false
	}
	return false
}

func blockDiverts(list []ast.Stmt) bool {
	if len(list) == 0 {
		return false
	}
	switch s := list[len(list)-1].(type) {
	case *ast.ReturnStmt:
		return true
	case *ast.BranchStmt:
		return s.Tok == token.CONTINUE || s.Tok == token.BREAK || s.Tok == token.GOTO
	case *ast.ExprStmt:
		if c, ok := s.X.(*ast.CallExpr); ok {
			if id, ok := ast.Unparen(c.Fun).(*ast.Ident); ok && id.Name == "panic" {
				return true
			}
		}
	case *ast.IfStmt:
		if eb, ok := s.Else.(*ast.BlockStmt); ok {
			return blockDiverts(s.Body.List) && blockDiverts(eb.List)
		}
	}
	return false
}

// checkErrDiscipline runs E-ERR over a body and all its nested literals for the calls selected by want.
// exceptions: construct key -> reason (frozen minority, one reason each).
func checkErrDiscipline(c *Ctx, rule string, f *FuncInfo, want func(id string) bool, exceptions map[string]string) int {
	p := c.P
	bodies := []*Body{p.BodyOf(f)}
	for _, l := range f.Lits {
		bodies = append(bodies, p.LitBody(f, l))
	}
	// The exception table names a swallowing site by its ordinal among the function's calls of that callee. Reordering
	// branches moves ordinals without changing behaviour, so the table is applied as a budget per (function, callee): as
	// many swallowing sites as the table lists are accepted; one more is reported.
	budget := map[string][]string{}
	for k, why := range exceptions {
		if i := strings.LastIndex(k, "#"); i > 0 && strings.HasPrefix(k, f.ID+":") {
			budget[k[:i]] = append(budget[k[:i]], why)
		}
	}
	type site struct {
		key, pos, msg string
		bad           bool
	}
	var all []site
	for _, b := range bodies {
		sites, blanks := b.errDefsIn(want)
		for _, s := range sites {
			v := b.checkErrSite(s)
			st := site{key: callKey(f, s.Call), pos: p.Pos(s.Call.Pos())}
			if v.Kind == "ok" {
				st.msg = "error of " + shortCallee(calleeID(b.Info(), s.Call)) + " is tested on every path and surfaced"
			} else {
				st.bad, st.msg = true, v.Kind+": "+v.Detail
			}
			all = append(all, st)
		}
		for _, call := range blanks {
			all = append(all, site{key: callKey(f, call), pos: p.Pos(call.Pos()), bad: true,
				msg: "blank: the error result of " + shortCallee(calleeID(b.Info(), call)) + " is discarded"})
		}
	}
	nbad := map[string]int{}
	for _, st := range all {
		if st.bad {
			nbad[st.key[:strings.LastIndex(st.key, "#")]]++
		}
	}
	for _, st := range all {
		base := st.key[:strings.LastIndex(st.key, "#")]
		switch why, exact := exceptions[st.key]; {
		case exact:
			c.ok(rule, st.key, st.pos, "accepted exception: "+why)
		case !st.bad:
			c.ok(rule, st.key, st.pos, st.msg)
		case nbad[base] <= len(budget[base]):
			c.ok(rule, st.key, st.pos, "accepted exception (site moved within the function): "+budget[base][0])
		case movedFromCallers(p, f, base, exceptions) != "":
			c.ok(rule, st.key, st.pos, "accepted exception (site moved into this helper of the listed function): "+movedFromCallers(p, f, base, exceptions))
		default:
			c.fail(rule, st.key, st.pos, st.msg)
		}
	}
	return len(all)
}

// retryOperandReturnsOwnError: inside function literals passed to backoff.Retry, every returned error expression
// must be nil, or derive from an error the literal itself defines — returning a captured outer variable the literal
// never assigns makes the retry vacuous (the wrapped call's failure never reaches Retry).
func checkRetryOperands(c *Ctx, rule string, f *FuncInfo) int {
	p := c.P
	info := f.Info()
	n := 0
	ast.Inspect(f.Decl.Body, func(nd ast.Node) bool {
		call, ok := nd.(*ast.CallExpr)
		if !ok || !strings.HasSuffix(calleeID(info, call), "backoff/v4.Retry") || len(call.Args) < 1 {
			return true
		}
		var lit *ast.FuncLit
		switch a := ast.Unparen(call.Args[0]).(type) {
		case *ast.FuncLit:
			lit = a
		case *ast.Ident:
			// operation := func() error {...}
			if v, ok := info.Uses[a].(*types.Var); ok {
				for _, rhs := range defsOfVar(f, v) {
					if l, ok := rhs.(*ast.FuncLit); ok {
						lit = l
					}
				}
			}
		}
		if lit == nil {
			return true
		}
		n++
		key := callKey(f, call)
		// variables assigned inside the literal
		assigned := map[types.Object]bool{}
		ast.Inspect(lit.Body, func(m ast.Node) bool {
			if as, ok := m.(*ast.AssignStmt); ok {
				for _, l := range as.Lhs {
					if id, ok := ast.Unparen(l).(*ast.Ident); ok {
						if o := info.Defs[id]; o != nil {
							assigned[o] = true
						} else if o := info.Uses[id]; o != nil {
							assigned[o] = true
						}
					}
				}
			}
			if vs, ok := m.(*ast.ValueSpec); ok {
				for _, id := range vs.Names {
					assigned[info.Defs[id]] = true
				}
			}
			return true
		})
		bad := false
		var badPos token.Pos
		ast.Inspect(lit.Body, func(m ast.Node) bool {
			if l, ok := m.(*ast.FuncLit); ok && l != lit {
				return false
			}
			r, ok := m.(*ast.ReturnStmt)
			if !ok || len(r.Results) != 1 {
				return true
			}
			if id, ok := ast.Unparen(r.Results[0]).(*ast.Ident); ok {
				if v, ok := info.Uses[id].(*types.Var); ok && !assigned[v] {
					bad, badPos = true, r.Pos()
				}
			}
			return true
		})
		c.check(!bad, rule, key, p.Pos(call.Pos()),
			"every error returned by the retry operand is nil or defined inside the operand",
			"the retry operand returns a captured outer error variable it never assigns (at "+p.Pos(badPos)+"): the wrapped call's failure never reaches backoff.Retry, so nothing is retried and the failure is invisible")
		return true
	})
	return n
}

// checkNoSwallow: no success return may be reachable on the branch where the error of a selected call is known to
// be non-nil, unless the path went through the true edge of an allowed classification test
// (errors.Is(err, <allowed sentinel>), os.IsNotExist(err)...). allowed maps "<funcID>" to the sentinel names that
// function may legitimately absorb.
func checkNoSwallow(c *Ctx, rule string, f *FuncInfo, want func(id string) bool, allowedSentinels []string) int {
	p := c.P
	bodies := []*Body{p.BodyOf(f)}
	for _, l := range f.Lits {
		bodies = append(bodies, p.LitBody(f, l))
	}
	n := 0
	allowed := map[string]bool{}
	for _, a := range allowedSentinels {
		allowed[a] = true
	}
	for _, b := range bodies {
		if b.errResultIndex() < 0 {
			continue
		}
		info := b.Info()
		sites, _ := b.errDefsIn(want)
		for _, s := range sites {
			n++
			v := s.Var
			const (
				idle     = 1
				unknown  = 2
				failed   = 4
				absorbed = 8 // failed, but classified as an allowed sentinel
				okNil    = 16
			)
			var bad []ast.Node
			b.run(flowSpec{
				entry: idle,
				node: func(nd ast.Node, st uint64) uint64 {
					if nd == s.Assign || containsNode(nd, s.Assign) {
						return unknown
					}
					if st&(failed|unknown|absorbed|okNil) != 0 {
						// redefinition of v ends the tracking
						if as, ok := nd.(*ast.AssignStmt); ok {
							for _, l := range as.Lhs {
								if id, ok := ast.Unparen(l).(*ast.Ident); ok && info.Uses[id] == v {
									return idle
								}
							}
						}
					}
					if r, ok := nd.(*ast.ReturnStmt); ok && st&failed != 0 {
						if b.classifyReturn(r) == retSuccess {
							bad = append(bad, r)
						}
					}
					return st
				},
				edge: func(blk *cfg.Block, i int, st uint64) uint64 {
					cond := condOf(blk)
					if cond == nil || st&(unknown|failed) == 0 {
						return st
					}
					var r int
					if i == 0 {
						r = condNilness(info, cond, v)
					} else {
						r = condNilnessWhenFalse(info, cond, v)
					}
					switch r {
					case +1:
						return (st &^ (unknown | okNil)) | failed
					case -1:
						return (st &^ (unknown | failed)) | okNil
					}
					// a positive classification of v as a conjunct of a true edge implies v != nil
					if i == 0 && st&unknown != 0 {
						for _, cj := range conjuncts(cond) {
							if cls, neg := classifierSentinel(info, cj, v); cls != "" && !neg {
								if allowed[cls] {
									return (st &^ (unknown | okNil)) | absorbed
								}
								return (st &^ (unknown | okNil)) | failed
							}
						}
					}
					// classification tests on the failed branch
					if st&failed != 0 {
						if cls, neg := classifierSentinel(info, cond, v); cls != "" && allowed[cls] {
							if (i == 0) != neg {
								return (st &^ failed) | absorbed
							}
						}
					}
					return st
				},
			})
			key := callKey(f, s.Call)
			if len(bad) > 0 {
				c.fail(rule, key, p.Pos(bad[0].Pos()), "a success return is reachable on the branch where the error of "+shortCallee(calleeID(info, s.Call))+" is non-nil: the failure is swallowed and the operation reports success")
			} else {
				c.ok(rule, key, p.Pos(s.Call.Pos()), "no success return on the non-nil branch of this call's error")
			}
		}
	}
	return n
}

// classifierSentinel recognises errors.Is(v, pkg.ErrX) / !errors.Is(...) / os.IsNotExist(v); returns the sentinel
// name ("ErrX" / "os.IsNotExist") and whether the test is negated.
func classifierSentinel(info *types.Info, cond ast.Expr, v *types.Var) (string, bool) {
	cond = ast.Unparen(cond)
	neg := false
	if u, ok := cond.(*ast.UnaryExpr); ok && u.Op == token.NOT {
		neg = true
		cond = ast.Unparen(u.X)
	}
	if be, ok := cond.(*ast.BinaryExpr); ok && (be.Op == token.EQL || be.Op == token.NEQ) {
		var other ast.Expr
		if isVar(info, be.X, v) {
			other = be.Y
		} else if isVar(info, be.Y, v) {
			other = be.X
		}
		if sel, ok := ast.Unparen(other).(*ast.SelectorExpr); ok && other != nil {
			return sel.Sel.Name, neg != (be.Op == token.NEQ)
		}
		return "", false
	}
	call, ok := cond.(*ast.CallExpr)
	if !ok {
		return "", false
	}
	id := calleeID(info, call)
	switch id {
	case "errors.Is", "pkg/errors.Is":
		if len(call.Args) == 2 && isVar(info, call.Args[0], v) {
			if sel, ok := ast.Unparen(call.Args[1]).(*ast.SelectorExpr); ok {
				return sel.Sel.Name, neg
			}
			if idn, ok := ast.Unparen(call.Args[1]).(*ast.Ident); ok {
				return idn.Name, neg
			}
		}
	case "os.IsNotExist", "os.IsExist":
		if len(call.Args) == 1 && isVar(info, call.Args[0], v) {
			return id, neg
		}
	}
	return "", false
}

// isGoLiteralOrWorker: the body is a function literal started by a go statement.
func isGoLiteralOrWorker(b *Body) bool {
	if b.Lit == nil {
		return b.P.goTargets()[b.Fn.ID]
	}
	found := false
	ast.Inspect(b.Fn.Decl.Body, func(n ast.Node) bool {
		if g, ok := n.(*ast.GoStmt); ok && ast.Unparen(g.Call.Fun) == ast.Expr(b.Lit) {
			found = true
		}
		return !found
	})
	return found
}

// goTargets: declared functions of the repository that some go statement starts.
func (p *Prog) goTargets() map[string]bool {
	if p.goT != nil {
		return p.goT
	}
	p.goT = map[string]bool{}
	for _, f := range p.funcs {
		if f.Decl.Body == nil {
			continue
		}
		info := f.Info()
		ast.Inspect(f.Decl.Body, func(n ast.Node) bool {
			if g, ok := n.(*ast.GoStmt); ok {
				if id := calleeID(info, g.Call); id != "" {
					p.goT[id] = true
				}
			}
			return true
		})
	}
	return p.goT
}

// movedFromCallers: f is an unexported function all of whose callers are listed in the exception table for the same
// callee (base = "<f.ID>:<callee>"): the excepted statement was extracted into f. Returns the reason, or "".
func movedFromCallers(p *Prog, f *FuncInfo, base string, exceptions map[string]string) string {
	if ast.IsExported(f.Decl.Name.Name) {
		return ""
	}
	callee := strings.TrimPrefix(base, f.ID+":")
	cs := callersOf(p, f.ID)
	if len(cs) == 0 {
		return ""
	}
	why := ""
	for _, s := range cs {
		found := ""
		for k, w := range exceptions {
			if strings.HasPrefix(k, s.Fn.ID+":"+callee+"#") {
				found = w
			}
		}
		if found == "" {
			return ""
		}
		why = found
	}
	return why
}
