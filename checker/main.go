// dmverif decides structural clauses of the datamon properties C01..C22 from /repo's source, without running it.
package main

import (
	"encoding/json"
	"flag"
	"fmt"
	"os"
	"path/filepath"
	"runtime/debug"
	"sort"
	"strconv"
	"strings"
	"time"
)

// propSpec registers the rules of one property.
type propSpec struct {
	id          string
	explanation string
	run         func(c *Ctx)
	// thorough, when set, runs in addition at the thorough tier
	thorough func(c *Ctx)
}

var registry = map[string]*propSpec{}

func register(p *propSpec) { registry[p.id] = p }

func main() {
	prop := flag.String("prop", "", "property id (C01..C22) or 'all'")
	tier := flag.String("tier", "quick", "quick|thorough")
	repo := flag.String("repo", "/repo", "repository to analyse")
	verif := flag.String("verif", "", "verification directory (default: parent of the binary's directory)")
	replay := flag.String("replay", "", "violation file to replay")
	selftest := flag.Bool("selftest", false, "run the mutation witnesses (two-way validation of the rules)")
	warm := flag.Bool("warm", false, "load the repository once (warms the build cache)")
	list := flag.Bool("list", false, "list registered properties")
	mutate := flag.Bool("mutate", false, "systematic mutation sweep of the property's anchor functions (report in <verif>/mutation/)")
	mutWorker := flag.String("mutant-worker", "", "internal: evaluate the mutants listed in this file")
	mutOut := flag.String("mutant-out", "", "internal: where the worker writes its results")
	renames := flag.Bool("renames", false, "with -mutate: sweep behaviour-preserving renames of locals instead (every report is a false alarm)")
	par := flag.Int("par", 0, "mutation sweep: parallel workers (default NumCPU/2)")
	genEffdom := flag.String("gen-effdom", "", "write the E-DOM reference table of the analysed tree to this file")
	genGuarded := flag.String("gen-guarded", "", "write the guarded-action reference table of the analysed tree to this file")
	limit := flag.Int("limit", 0, "mutation sweep: at most this many mutants (deterministic thinning)")
	flag.Parse()

	if *verif == "" {
		exe, err := os.Executable()
		if err == nil {
			*verif = filepath.Dir(filepath.Dir(exe))
		} else {
			*verif = "/verif"
		}
	}
	if t := os.Getenv("VERIF_TIER"); t != "" && !flagSet("tier") {
		*tier = t
	}
	seed := 0
	if s := os.Getenv("VERIF_SEED"); s != "" {
		seed, _ = strconv.Atoi(s)
	}

	if *list {
		var ids []string
		for id := range registry {
			ids = append(ids, id)
		}
		sort.Strings(ids)
		fmt.Println(strings.Join(ids, " "))
		return
	}
	if *warm {
		p := guardLoad(*repo, "")
		fmt.Printf("loaded %d packages, %d files, %d functions\n", len(p.All), p.NFiles, p.NFuncs)
		return
	}
	if *genGuarded != "" {
		p := guardLoad(*repo, "")
		genGuardedTable(p, *genGuarded)
		return
	}
	if *genEffdom != "" {
		p := guardLoad(*repo, "")
		genEffdomTable(p, *genEffdom)
		return
	}
	if *mutWorker != "" {
		os.Exit(runMutantWorker(*mutWorker, *mutOut, *prop, *repo))
	}
	if *mutate {
		sweepRenames = *renames
		rc := 0
		for _, id := range strings.Split(*prop, ",") {
			if r := runMutationSweep(*repo, *verif, id, *par, *limit); r > rc {
				rc = r
			}
		}
		os.Exit(rc)
	}
	if *replay != "" {
		os.Exit(doReplay(*replay, *repo, *verif, *tier, seed))
	}
	if *selftest {
		os.Exit(runSelftest(*repo, *verif, *prop))
	}
	if *prop == "" {
		fmt.Fprintln(os.Stderr, "usage: dmverif -prop Cxx [-tier quick|thorough] [-repo /repo]")
		os.Exit(2)
	}
	var ids []string
	if *prop == "all" {
		for id := range registry {
			ids = append(ids, id)
		}
		sort.Strings(ids)
	} else {
		ids = strings.Split(*prop, ",")
	}
	rc := 0
	var p *Prog
	for _, id := range ids {
		spec := registry[id]
		if spec == nil {
			fmt.Fprintf(os.Stderr, "UNDECIDED property=%s: no check registered\n", id)
			os.Exit(2)
		}
		if p == nil {
			p = guardLoad(*repo, "")
		}
		r := runProp(spec, p, *tier, *verif, seed)
		if r > rc {
			rc = r
		}
	}
	os.Exit(rc)
}

func flagSet(name string) bool {
	set := false
	flag.Visit(func(f *flag.Flag) {
		if f.Name == name {
			set = true
		}
	})
	return set
}

func guardLoad(repo, tags string) (p *Prog) {
	defer func() {
		if r := recover(); r != nil {
			if u, ok := r.(undecidedErr); ok {
				fmt.Printf("UNDECIDED: %s\n", u.msg)
				os.Exit(2)
			}
			panic(r)
		}
	}()
	return loadProg(repo, tags, nil)
}

// runProp runs one property's rules; exit code 0 (held), 1 (violation), 2 (undecided).
func runProp(spec *propSpec, p *Prog, tier, verif string, seed int) (rc int) {
	t0 := time.Now()
	c := newCtx(spec.id, tier, p)
	defer func() {
		if r := recover(); r != nil {
			if u, ok := r.(undecidedErr); ok {
				fmt.Printf("UNDECIDED property=%s: %s\n", spec.id, u.msg)
				rc = 2
				return
			}
			fmt.Printf("UNDECIDED property=%s: checker panic: %v\n%s\n", spec.id, r, debug.Stack())
			rc = 2
		}
	}()
	spec.runAllCross(c, verif)
	extra := map[string]interface{}{}
	if tier == "thorough" {
		if spec.thorough != nil {
			spec.thorough(c)
		}
		// second build-tag variant: bundle_preserve swaps enableBundlePreserve in pkg/core and cmd
		p2 := loadProg(p.RepoDir, "bundle_preserve", nil)
		c2 := newCtx(spec.id, tier, p2)
		spec.runAllCross(c2, verif)
		if spec.thorough != nil {
			spec.thorough(c2)
		}
		nviol := 0
		for _, o := range c2.Obs {
			if o.Verdict == VIOLATION {
				nviol++
				// merge violations only seen under the tag
				found := false
				for _, o1 := range c.Obs {
					if o1.Rule == o.Rule && o1.Key == o.Key && o1.Verdict == VIOLATION {
						found = true
					}
				}
				if !found {
					o.Key += "@tags=bundle_preserve"
					c.Obs = append(c.Obs, o)
				}
			}
		}
		extra["tag_variant_bundle_preserve"] = map[string]int{"obligations": len(c2.Obs), "violations": nviol}
		// mutation witnesses of this property (two-way validation)
		ws := witnessesFor(spec.id)
		if len(ws) > 0 {
			res := runWitnesses(p.RepoDir, ws)
			extra["mutation_witnesses"] = res
			for _, r := range res {
				if r.Status == "missed" {
					c.fail("selftest", r.Name, "-", "mutation witness not detected: the rule lost its teeth: "+r.Detail)
				}
			}
		}
	}
	return c.finish(verif, spec.explanation, t0, seed, extra)
}

func doReplay(path, repo, verif, tier string, seed int) int {
	b, err := os.ReadFile(path)
	if err != nil {
		fmt.Printf("UNDECIDED: cannot read %s: %v\n", path, err)
		return 2
	}
	var v struct {
		Property   string       `json:"property"`
		Violations []Obligation `json:"violations"`
	}
	if err := json.Unmarshal(b, &v); err != nil {
		fmt.Printf("UNDECIDED: cannot parse %s: %v\n", path, err)
		return 2
	}
	spec := registry[v.Property]
	if spec == nil {
		fmt.Printf("UNDECIDED: unknown property %q\n", v.Property)
		return 2
	}
	fmt.Printf("replaying %d recorded violation(s) of %s against %s\n", len(v.Violations), v.Property, repo)
	for _, o := range v.Violations {
		fmt.Printf("  recorded: %s %s at %s: %s\n", o.Rule, o.Key, o.Pos, oneLine(o.Detail))
	}
	p := guardLoad(repo, "")
	return runProp(spec, p, tier, verif, seed)
}
