package main

import (
	"go/ast"
	"go/types"
	"sort"
	"strings"

	"golang.org/x/tools/go/cfg"
)

// E-LOCK: lock pairing typestate and guarded-by, on the CFG of each body.
//
// Pairing, per lock expression of a body (keyed by the rename-robust description of the receiver of Lock/Unlock):
//   states  U (not held), L (held), LD (held, a deferred unlock is registered), UD (not held, deferred unlock registered)
//   Lock:   U->L   L,LD -> violation "lock while held"       UD->LD
//   Unlock: L->U   LD->UD   U,UD -> violation "unlock of a mutex that is not held"
//   defer Unlock: L->LD  U->UD  LD,UD -> violation "two deferred unlocks"
//   exit:   L -> violation "function exits while holding"   UD -> violation "deferred unlock runs on a mutex already released"
// The analysis is a may-analysis over sets of states; it is path-insensitive except that it follows the CFG, so a
// violation is reported when some CFG path exhibits it.

const (
	lkLock = iota + 1
	lkUnlock
)

type lockOp struct {
	kind  int
	key   string     // description of the mutex expression, e.g. "recv.lock" ; read locks get the suffix ":r"
	field *types.Var // the mutex field, if the mutex is a struct field
}

// lockOpOf classifies a call as Lock/Unlock of a sync mutex.
func lockOpOf(f *FuncInfo, call *ast.CallExpr) (lockOp, bool) {
	info := f.Info()
	id := calleeID(info, call)
	var kind int
	suffix := ""
	switch id {
	case "sync.Mutex.Lock", "sync.RWMutex.Lock", "sync.Locker.Lock":
		kind = lkLock
	case "sync.Mutex.Unlock", "sync.RWMutex.Unlock", "sync.Locker.Unlock":
		kind = lkUnlock
	case "sync.RWMutex.RLock":
		kind, suffix = lkLock, ":r"
	case "sync.RWMutex.RUnlock":
		kind, suffix = lkUnlock, ":r"
	default:
		return lockOp{}, false
	}
	sel, ok := ast.Unparen(call.Fun).(*ast.SelectorExpr)
	if !ok {
		return lockOp{}, false
	}
	op := lockOp{kind: kind, key: describeExpr(f, sel.X, 0) + suffix}
	if fs, ok := ast.Unparen(sel.X).(*ast.SelectorExpr); ok {
		if s := info.Selections[fs]; s != nil {
			if v, ok := s.Obj().(*types.Var); ok && v.IsField() {
				op.field = v
			}
		}
	}
	return op, true
}

// deferredLockOps lists the lock operations a defer statement registers (direct call or literal body).
func deferredLockOps(f *FuncInfo, d *ast.DeferStmt) []lockOp {
	var out []lockOp
	if lit, ok := ast.Unparen(d.Call.Fun).(*ast.FuncLit); ok {
		ast.Inspect(lit.Body, func(n ast.Node) bool {
			if _, isLit := n.(*ast.FuncLit); isLit {
				return false
			}
			if c, ok := n.(*ast.CallExpr); ok {
				if op, ok := lockOpOf(f, c); ok {
					out = append(out, op)
				}
			}
			return true
		})
		return out
	}
	if op, ok := lockOpOf(f, d.Call); ok {
		out = append(out, op)
	}
	return out
}

type lockViolation struct {
	key  string
	pos  ast.Node
	what string
}

// lockKeysIn lists the distinct mutex keys operated on in a body (nested literals that are not invoked or deferred
// in place are separate bodies and are not included).
func (b *Body) lockKeysIn() []string {
	set := map[string]bool{}
	ast.Inspect(b.Block, func(n ast.Node) bool {
		if l, ok := n.(*ast.FuncLit); ok && l != b.Lit {
			// literals deferred or invoked in place are part of this body's protocol
			par := b.parent[l]
			if ce, ok := par.(*ast.CallExpr); ok && ast.Unparen(ce.Fun) == ast.Expr(l) {
				if _, isGo := b.parent[ce].(*ast.GoStmt); !isGo {
					return true
				}
			}
			return false
		}
		if c, ok := n.(*ast.CallExpr); ok {
			if op, ok := lockOpOf(b.Fn, c); ok {
				set[op.key] = true
			}
		}
		return true
	})
	var out []string
	for k := range set {
		out = append(out, k)
	}
	sort.Strings(out)
	return out
}

// lockWrappers: bodies that only acquire or only release a mutex by design (confirmed by reading); every other
// acquire-only body is a missing unlock.
var lockWrappers = map[string]string{
	"pkg/cafs.baseBuffer.Pin":   "cafs buffers use the mutex `busy` as a pin: Pin acquires",
	"pkg/cafs.baseBuffer.Unpin": "…and Unpin releases; pairing is checked at the users (lru-pin rule)",
}

// lockKindsOf returns lkLock if the body only locks the key, lkUnlock if it only unlocks it, 0 if both.
func (b *Body) lockKindsOf(key string) int {
	hasLock, hasUnlock := false, false
	ast.Inspect(b.Block, func(n ast.Node) bool {
		if c, ok := n.(*ast.CallExpr); ok {
			if op, ok := lockOpOf(b.Fn, c); ok && op.key == key {
				if op.kind == lkLock {
					hasLock = true
				} else {
					hasUnlock = true
				}
			}
		}
		return true
	})
	switch {
	case hasLock && !hasUnlock:
		return lkLock
	case hasUnlock && !hasLock:
		return lkUnlock
	}
	return 0
}

// checkLockPairingKey runs the typestate automaton for one mutex key over the body.
func (b *Body) checkLockPairingKey(key string) (viol []lockViolation, nOps int) {
	const U, L, LD, UD = 1, 2, 4, 8
	seen := map[string]bool{}
	report := func(n ast.Node, what string) {
		k := b.P.Pos(n.Pos()) + what
		if !seen[k] {
			seen[k] = true
			viol = append(viol, lockViolation{key: key, pos: n, what: what})
		}
	}
	counted := map[ast.Node]bool{}
	apply := func(at ast.Node, op lockOp, deferred bool, s uint64) uint64 {
		if op.key != key {
			return s
		}
		if !counted[at] {
			counted[at] = true
			nOps++
		}
		var out uint64
		switch {
		case deferred && op.kind == lkUnlock:
			if s&L != 0 {
				out |= LD
			}
			if s&U != 0 {
				out |= UD
			}
			if s&(LD|UD) != 0 {
				report(at, "a second unlock of the same mutex is deferred: the mutex is unlocked twice at exit (fatal error: unlock of unlocked mutex)")
				out |= s & (LD | UD)
			}
		case op.kind == lkLock:
			if s&U != 0 {
				out |= L
			}
			if s&UD != 0 {
				out |= LD
			}
			if s&(L|LD) != 0 {
				report(at, "the mutex is locked on a path where this function already holds it: self-deadlock")
				out |= s & (L | LD)
			}
		case op.kind == lkUnlock:
			if s&L != 0 {
				out |= U
			}
			if s&LD != 0 {
				out |= UD
			}
			if s&(U|UD) != 0 {
				report(at, "the mutex is unlocked on a path where this function does not hold it (fatal error: unlock of unlocked mutex)")
				out |= s & (U | UD)
			}
		}
		return out
	}
	b.run(flowSpec{
		entry: U,
		node: func(n ast.Node, s uint64) uint64 {
			if d, ok := n.(*ast.DeferStmt); ok {
				for _, op := range deferredLockOps(b.Fn, d) {
					s = apply(d, op, true, s)
				}
				return s
			}
			for _, c := range callsIn(n) {
				if op, ok := lockOpOf(b.Fn, c); ok {
					s = apply(c, op, false, s)
				}
			}
			return s
		},
		exit: func(blk *cfg.Block, ret *ast.ReturnStmt, s uint64) {
			var at ast.Node = b.Block
			if ret != nil {
				at = ret
			}
			if s&L != 0 {
				report(at, "the function can exit while still holding the mutex (no unlock on this path, none deferred): the next operation blocks forever")
			}
			if s&UD != 0 {
				report(at, "a deferred unlock runs at this exit although the mutex was already released on this path (fatal error: unlock of unlocked mutex)")
			}
		},
	})
	return
}

// checkLockPairing emits one obligation per (body, mutex) of the function and its literals that are separate bodies
// (go statements, callbacks).
func checkLockPairing(c *Ctx, rule string, f *FuncInfo) int {
	p := c.P
	n := 0
	bodies := []*Body{p.BodyOf(f)}
	for _, l := range f.Lits {
		bodies = append(bodies, p.LitBody(f, l))
	}
	for _, b := range bodies {
		for _, key := range b.lockKeysIn() {
			if kinds := b.lockKindsOf(key); (kinds == lkLock || kinds == lkUnlock) && lockWrappers[b.Key()] != "" {
				// acquire-only or release-only body: a wrapper paired by its callers (cafs buffers use a mutex as a pin:
				// Pin locks, Unpin unlocks)
				n++
				c.ok(rule, b.Key()+":"+key, p.Pos(b.Block.Pos()), "acquire-only / release-only wrapper of "+key+": pairing is the callers' obligation (Pin/Unpin protocol)")
				continue
			}
			viol, nOps := b.checkLockPairingKey(key)
			n++
			if len(viol) == 0 {
				c.ok(rule, b.Key()+":"+key, p.Pos(b.Block.Pos()), "lock/unlock of "+key+" pair on every path ("+itoa(nOps)+" operations): never unlocked when not held, never locked when held, released at every exit")
				continue
			}
			for _, v := range viol {
				c.fail(rule, b.Key()+":"+key, p.Pos(v.pos.Pos()), v.what)
			}
		}
	}
	return n
}

// ---------------------------------------------------------------------------------------------------
// guarded-by

// guardSpec says that accesses to the struct field `Field` (ID "pkg/cafs.leafFreelist.list") must happen while the
// mutex field `Lock` of the same struct is held by the accessing function, or inside a function of CallerHolds
// (whose call sites are checked instead), or inside a function of Exempt (constructor, single-threaded phase), each
// with a reason.
type guardSpec struct {
	Field       string
	Lock        string            // name of the mutex field in the same struct
	ReadLockOK  bool              // reads may hold the read lock
	WritesOnly  bool              // only writes are checked
	CallerHolds map[string]string // funcID -> reason
	Exempt      map[string]string // funcID -> reason
}

type fieldAccess struct {
	fn    *FuncInfo
	body  *Body
	sel   *ast.SelectorExpr
	write bool
}

func fieldID(v *types.Var, recvType types.Type) string {
	return namedTypeID(recvType) + "." + v.Name()
}

// fieldAccesses lists the selections of the field with the given ID in the package's functions.
func fieldAccesses(p *Prog, pkgRel string, fid string) []fieldAccess {
	var out []fieldAccess
	for _, f := range p.FuncsIn(pkgRel) {
		if f.Decl.Body == nil {
			continue
		}
		info := f.Info()
		bodies := map[*ast.FuncLit]*Body{}
		var top *Body
		bodyFor := func(n ast.Node, parents map[ast.Node]ast.Node) *Body {
			// innermost literal that is a separate body (go statement / stored callback); in-place literals belong to the parent
			for x := parents[n]; x != nil; x = parents[x] {
				if l, ok := x.(*ast.FuncLit); ok {
					par := parents[l]
					if ce, ok := par.(*ast.CallExpr); ok && ast.Unparen(ce.Fun) == ast.Expr(l) {
						if _, isGo := parents[ce].(*ast.GoStmt); !isGo {
							continue
						}
					}
					if bodies[l] == nil {
						bodies[l] = p.LitBody(f, l)
					}
					return bodies[l]
				}
			}
			if top == nil {
				top = p.BodyOf(f)
			}
			return top
		}
		// parents over the whole declaration
		parents := map[ast.Node]ast.Node{}
		var stack []ast.Node
		ast.Inspect(f.Decl.Body, func(n ast.Node) bool {
			if n == nil {
				stack = stack[:len(stack)-1]
				return true
			}
			if len(stack) > 0 {
				parents[n] = stack[len(stack)-1]
			}
			stack = append(stack, n)
			return true
		})
		ast.Inspect(f.Decl.Body, func(n ast.Node) bool {
			sel, ok := n.(*ast.SelectorExpr)
			if !ok {
				return true
			}
			s := info.Selections[sel]
			if s == nil {
				return true
			}
			v, ok := s.Obj().(*types.Var)
			if !ok || !v.IsField() {
				return true
			}
			if fieldID(v, s.Recv()) != fid && !embeddedFieldMatch(s, v, fid) {
				return true
			}
			out = append(out, fieldAccess{fn: f, body: bodyFor(sel, parents), sel: sel, write: isWriteAccess(sel, parents)})
			return true
		})
	}
	return out
}

func embeddedFieldMatch(s *types.Selection, v *types.Var, fid string) bool {
	// field promoted through embedding: match on the declaring struct
	i := strings.LastIndex(fid, ".")
	if i < 0 || v.Name() != fid[i+1:] {
		return false
	}
	t := s.Recv()
	if pt, ok := t.(*types.Pointer); ok {
		t = pt.Elem()
	}
	st, ok := t.Underlying().(*types.Struct)
	if !ok {
		return false
	}
	for k := 0; k < st.NumFields(); k++ {
		fld := st.Field(k)
		if fld.Embedded() && namedTypeID(fld.Type()) == fid[:i] {
			return true
		}
	}
	return false
}

// isWriteAccess: the selection (or an index/slice of it) is assigned, inc/dec'ed, appended to itself, deleted from,
// or has its address taken.
func isWriteAccess(sel *ast.SelectorExpr, parents map[ast.Node]ast.Node) bool {
	var cur ast.Node = sel
	for {
		par := parents[cur]
		switch x := par.(type) {
		case *ast.ParenExpr:
			cur = x
			continue
		case *ast.IndexExpr:
			if x.X == cur {
				cur = x
				continue
			}
			return false
		case *ast.AssignStmt:
			for _, l := range x.Lhs {
				if l == cur {
					return true
				}
			}
			return false
		case *ast.IncDecStmt:
			return x.X == cur
		case *ast.UnaryExpr:
			return x.Op.String() == "&"
		case *ast.CallExpr:
			if id, ok := ast.Unparen(x.Fun).(*ast.Ident); ok && id.Name == "delete" && len(x.Args) > 0 && x.Args[0] == cur {
				return true
			}
			return false
		}
		return false
	}
}

// heldAt computes, for a body, the nodes (CFG statement nodes) at which the mutex field `lockField` may be NOT held.
// It returns a predicate over AST nodes: true if the innermost CFG node containing n is reached only with the lock held.
func (b *Body) mustHold(lockName string, allowRead bool) func(n ast.Node) bool {
	const notHeld, held = 1, 2
	nodeState := map[ast.Node]uint64{}
	isOp := func(op lockOp) (int, bool) {
		base := strings.TrimSuffix(op.key, ":r")
		if !strings.HasSuffix(base, "."+lockName) && base != lockName {
			return 0, false
		}
		if strings.HasSuffix(op.key, ":r") && !allowRead {
			return 0, false
		}
		return op.kind, true
	}
	b.run(flowSpec{
		entry: notHeld,
		node: func(n ast.Node, s uint64) uint64 {
			nodeState[n] |= s
			if _, ok := n.(*ast.DeferStmt); ok {
				return s
			}
			for _, c := range callsIn(n) {
				if op, ok := lockOpOf(b.Fn, c); ok {
					if k, ok := isOp(op); ok {
						if k == lkLock {
							s = held
						} else {
							s = notHeld
						}
					}
				}
			}
			return s
		},
	})
	return func(n ast.Node) bool {
		// find the CFG node containing n
		for x := n; x != nil; x = b.parent[x] {
			if st, ok := nodeState[x]; ok {
				// the lock call itself may be inside the same statement; statement-level granularity
				return st&notHeld == 0
			}
		}
		return false
	}
}

// checkGuardedBy checks one guard spec over a package. Call sites of CallerHolds functions are checked recursively.
func checkGuardedBy(c *Ctx, rule string, pkgRel string, g guardSpec) int {
	p := c.P
	n := 0
	// the table names unexported fields; when the struct no longer has a field of the lock's name (renamed), the entry
	// cannot be applied: it is skipped with a note, not reported (the pairing rule still checks every Lock/Unlock)
	if i := strings.LastIndex(g.Field, "."); i > 0 {
		typeID := g.Field[:i]
		found, known := false, false
		for _, pk := range p.All {
			if pk.Types == nil || strings.TrimPrefix(pk.PkgPath, modPrefix) != pkgRel {
				continue
			}
			j := strings.LastIndex(typeID, ".")
			if obj := pk.Types.Scope().Lookup(typeID[j+1:]); obj != nil {
				if st, ok := obj.Type().Underlying().(*types.Struct); ok {
					known = true
					for k := 0; k < st.NumFields(); k++ {
						if st.Field(k).Name() == g.Lock {
							found = true
						}
					}
				}
			}
		}
		if known && !found {
			c.note("%s: %s has no field named %s any more (renamed?): the guarded-by entry for %s is not applied", rule, typeID, g.Lock, g.Field)
			return 1
		}
	}
	holdCache := map[*Body]func(ast.Node) bool{}
	holds := func(b *Body, at ast.Node, read bool) bool {
		h := holdCache[b]
		if h == nil {
			h = b.mustHold(g.Lock, g.ReadLockOK)
			holdCache[b] = h
		}
		return h(at)
	}
	for _, a := range fieldAccesses(p, pkgRel, g.Field) {
		if g.WritesOnly && !a.write {
			continue
		}
		n++
		key := a.body.Key() + ":" + g.Field
		pos := p.Pos(a.sel.Pos())
		if why, ok := g.Exempt[a.fn.ID]; ok {
			c.ok(rule, key, pos, "access in "+a.fn.ID+" exempt: "+why)
			continue
		}
		if why, ok := g.CallerHolds[a.fn.ID]; ok {
			c.ok(rule, key, pos, "access in "+a.fn.ID+", whose callers hold "+g.Lock+" ("+why+"); its call sites are checked")
			continue
		}
		acc := "read"
		if a.write {
			acc = "write"
		}
		c.check(holds(a.body, a.sel, !a.write), rule, key, pos,
			acc+" of "+g.Field+" with "+g.Lock+" held",
			acc+" of "+g.Field+" at a point where "+g.Lock+" is not held on every path: concurrent operations race on it")
	}
	// call sites of caller-holds functions
	ids := make([]string, 0, len(g.CallerHolds))
	for id := range g.CallerHolds {
		ids = append(ids, id)
	}
	sort.Strings(ids)
	for _, id := range ids {
		for _, cs := range callersOf(p, id) {
			n++
			key := callKey(cs.Fn, cs.Call) + ":holds-" + g.Lock
			pos := p.Pos(cs.Call.Pos())
			if _, ok := g.CallerHolds[cs.Fn.ID]; ok {
				c.ok(rule, key, pos, "called from "+cs.Fn.ID+", itself a caller-holds function")
				continue
			}
			if why, ok := g.Exempt[cs.Fn.ID]; ok {
				c.ok(rule, key, pos, "called from exempt "+cs.Fn.ID+": "+why)
				continue
			}
			// find the body containing the call
			var body *Body
			if lit := innermostSeparateLit(p, cs.Fn, cs.Call); lit != nil {
				body = p.LitBody(cs.Fn, lit)
			} else {
				body = p.BodyOf(cs.Fn)
			}
			c.check(holds(body, cs.Call, false), rule, key, pos,
				"call of "+shortCallee(id)+" with "+g.Lock+" held",
				shortCallee(id)+" expects its caller to hold "+g.Lock+" but is called at a point where it is not held on every path")
		}
	}
	return n
}

// innermostSeparateLit returns the innermost function literal containing n that runs as a separate body (go
// statement or stored callback), or nil.
func innermostSeparateLit(p *Prog, f *FuncInfo, n ast.Node) *ast.FuncLit {
	var best *ast.FuncLit
	for _, l := range f.Lits {
		if l.Pos() <= n.Pos() && n.End() <= l.End() {
			// in-place invocation?
			inPlace := false
			ast.Inspect(f.Decl.Body, func(m ast.Node) bool {
				if ce, ok := m.(*ast.CallExpr); ok && ast.Unparen(ce.Fun) == ast.Expr(l) {
					inPlace = true
				}
				return !inPlace
			})
			if inPlace {
				// deferred / go'd literals are still invoked "in place" syntactically; treat go as separate
				isGo := false
				ast.Inspect(f.Decl.Body, func(m ast.Node) bool {
					if g, ok := m.(*ast.GoStmt); ok && ast.Unparen(g.Call.Fun) == ast.Expr(l) {
						isGo = true
					}
					return !isGo
				})
				if !isGo {
					continue
				}
			}
			if best == nil || (l.Pos() >= best.Pos() && l.End() <= best.End()) {
				best = l
			}
		}
	}
	return best
}
