package main

import (
	"fmt"
	"go/ast"
	"go/token"
	"go/types"
	"os"
	"sort"
	"strings"

	"golang.org/x/tools/go/packages"
	"golang.org/x/tools/go/types/typeutil"
)

const modPrefix = "github.com/oneconcern/datamon/"

// Prog is the loaded, type-checked repository.
type Prog struct {
	Fset    *token.FileSet
	Pkgs    map[string]*packages.Package // key: path relative to the module, e.g. "pkg/core"
	All     []*packages.Package
	RepoDir string
	Tags    string

	funcs    map[string]*FuncInfo // funcID -> info (declared functions and methods of the repo)
	byObj    map[*types.Func]*FuncInfo
	litOwner map[*ast.FuncLit]*FuncInfo
	NFuncs   int
	NFiles   int

	goT      map[string]bool         // lazily: functions started by go statements
	eff      *effAnalysis            // lazily: E-DOM summaries
	cg       *callGraph              // lazily: call graph for reachability
	crossObs map[string][]Obligation // lazily: every property's own obligations (cross pool)
	touched  map[string]bool         // when non-nil, records the functions rules ask for by name (mutation sweep anchors)
}

// FuncInfo is one declared function or method of the repository.
type FuncInfo struct {
	ID   string
	Decl *ast.FuncDecl
	Obj  *types.Func
	Pkg  *packages.Package
	Lits []*ast.FuncLit // function literals in source order (pre-order)

	parents map[ast.Node]ast.Node // lazily built by parentOf
}

// parentOf returns the syntactic parent of a node of the function's body.
func (f *FuncInfo) parentOf(n ast.Node) ast.Node {
	if f.parents == nil {
		f.parents = map[ast.Node]ast.Node{}
		if f.Decl.Body != nil {
			var stack []ast.Node
			ast.Inspect(f.Decl.Body, func(m ast.Node) bool {
				if m == nil {
					stack = stack[:len(stack)-1]
					return true
				}
				if len(stack) > 0 {
					f.parents[m] = stack[len(stack)-1]
				}
				stack = append(stack, m)
				return true
			})
		}
	}
	return f.parents[n]
}

// scopeBlockOf returns the innermost statement list container (block, case clause, comm clause) holding n.
func (f *FuncInfo) scopeBlockOf(n ast.Node) ast.Node {
	for x := f.parentOf(n); x != nil; x = f.parentOf(x) {
		switch x.(type) {
		case *ast.BlockStmt, *ast.CaseClause, *ast.CommClause:
			return x
		}
	}
	return nil
}

// encloses reports whether node outer contains position pos.
func encloses(outer ast.Node, pos token.Pos) bool {
	return outer != nil && outer.Pos() <= pos && pos <= outer.End()
}

func (f *FuncInfo) Info() *types.Info { return f.Pkg.TypesInfo }

// undecided aborts the run: the checker cannot decide (anchor missing, load failure...). Exit code 2.
type undecidedErr struct{ msg string }

func undecided(format string, args ...interface{}) {
	panic(undecidedErr{fmt.Sprintf(format, args...)})
}

func loadProg(repo string, tags string, overlay map[string][]byte) *Prog {
	mode := packages.NeedName | packages.NeedFiles | packages.NeedCompiledGoFiles | packages.NeedSyntax |
		packages.NeedTypes | packages.NeedTypesInfo | packages.NeedImports | packages.NeedTypesSizes
	env := []string{}
	for _, e := range os.Environ() {
		if strings.HasPrefix(e, "GOWORK=") || strings.HasPrefix(e, "GOFLAGS=") || strings.HasPrefix(e, "GOPROXY=") ||
			strings.HasPrefix(e, "GOSUMDB=") || strings.HasPrefix(e, "GOTOOLCHAIN=") {
			continue
		}
		env = append(env, e)
	}
	env = append(env, "GOWORK=off", "GOFLAGS=-mod=mod", "GOPROXY=off", "GOSUMDB=off", "GOTOOLCHAIN=local")
	cfg := &packages.Config{Mode: mode, Dir: repo, Tests: false, Env: env, Fset: token.NewFileSet(), Overlay: overlay}
	if tags != "" {
		cfg.BuildFlags = []string{"-tags=" + tags}
	}
	pkgs, err := packages.Load(cfg, "./pkg/...", "./cmd/...", "./internal/...")
	if err != nil {
		undecided("loading %s: %v", repo, err)
	}
	if len(pkgs) == 0 {
		undecided("loading %s: no packages", repo)
	}
	p := &Prog{Fset: cfg.Fset, Pkgs: map[string]*packages.Package{}, RepoDir: repo, Tags: tags,
		funcs: map[string]*FuncInfo{}, byObj: map[*types.Func]*FuncInfo{}, litOwner: map[*ast.FuncLit]*FuncInfo{}}
	for _, pk := range pkgs {
		if len(pk.Errors) > 0 {
			undecided("package %s does not type-check: %v", pk.PkgPath, pk.Errors[0])
		}
		rel := strings.TrimPrefix(pk.PkgPath, modPrefix)
		p.Pkgs[rel] = pk
		p.All = append(p.All, pk)
	}
	sort.Slice(p.All, func(i, j int) bool { return p.All[i].PkgPath < p.All[j].PkgPath })
	for _, pk := range p.All {
		p.indexPkg(pk)
	}
	return p
}

// funcID renders a function object as "pkg/core.fetchKeys", "pkg/core.Bundle.Upload" (pointer or value receiver
// alike), "pkg/storage.Store.Put" (interface method), "io.Copy".
func funcID(f *types.Func) string {
	if f == nil {
		return ""
	}
	pkg := ""
	if f.Pkg() != nil {
		pkg = strings.TrimPrefix(f.Pkg().Path(), modPrefix)
	}
	sig, _ := f.Type().(*types.Signature)
	if sig != nil && sig.Recv() != nil {
		t := sig.Recv().Type()
		if pt, ok := t.(*types.Pointer); ok {
			t = pt.Elem()
		}
		switch nt := t.(type) {
		case *types.Named:
			rp := ""
			if nt.Obj().Pkg() != nil {
				rp = strings.TrimPrefix(nt.Obj().Pkg().Path(), modPrefix)
			}
			return rp + "." + nt.Obj().Name() + "." + f.Name()
		default:
			// method of an unnamed interface type
			return pkg + ".<iface>." + f.Name()
		}
	}
	return pkg + "." + f.Name()
}

// Func returns the declared function with that ID or aborts as undecided (anchor vanished).
func (p *Prog) Func(id string) *FuncInfo {
	if p.touched != nil {
		p.touched[id] = true
	}
	f := p.funcs[id]
	if f == nil {
		undecided("anchor function %q not found in %s (renamed or removed: the rule cannot be applied)", id, p.RepoDir)
	}
	return f
}

func (p *Prog) FuncOpt(id string) *FuncInfo {
	if p.touched != nil {
		p.touched[id] = true
	}
	return p.funcs[id]
}

func (p *Prog) Pkg(rel string) *packages.Package {
	pk := p.Pkgs[rel]
	if pk == nil {
		undecided("anchor package %q not found", rel)
	}
	return pk
}

// FuncsIn lists the declared functions of a package in source order.
func (p *Prog) FuncsIn(rel string) []*FuncInfo {
	var out []*FuncInfo
	for _, f := range p.funcs {
		if strings.TrimPrefix(f.Pkg.PkgPath, modPrefix) == rel {
			out = append(out, f)
		}
	}
	sort.Slice(out, func(i, j int) bool { return out[i].Decl.Pos() < out[j].Decl.Pos() })
	return out
}

func (p *Prog) AllFuncs() []*FuncInfo {
	var out []*FuncInfo
	for _, f := range p.funcs {
		out = append(out, f)
	}
	sort.Slice(out, func(i, j int) bool { return out[i].ID < out[j].ID })
	return out
}

// Pos renders a position relative to the repo root.
func (p *Prog) Pos(pos token.Pos) string {
	if !pos.IsValid() {
		return "?"
	}
	ps := p.Fset.Position(pos)
	return fmt.Sprintf("%s:%d", strings.TrimPrefix(ps.Filename, p.RepoDir+"/"), ps.Line)
}

// calleeObj resolves the callee of a call: *types.Func for functions, methods and interface methods;
// *types.Var for calls through func-typed variables or fields; nil for conversions, builtins, literals.
func calleeObj(info *types.Info, call *ast.CallExpr) types.Object {
	if o := typeutil.Callee(info, call); o != nil {
		return o
	}
	fun := ast.Unparen(call.Fun)
	switch e := fun.(type) {
	case *ast.Ident:
		return info.Uses[e]
	case *ast.SelectorExpr:
		if s := info.Selections[e]; s != nil {
			return s.Obj()
		}
		return info.Uses[e.Sel]
	}
	return nil
}

// calleeID is funcID of the callee, or "var:<name>" for calls through variables/fields, or "" otherwise.
func calleeID(info *types.Info, call *ast.CallExpr) string {
	switch o := calleeObj(info, call).(type) {
	case *types.Func:
		return funcID(o)
	case *types.Var:
		if o.IsField() {
			return "field:" + o.Name()
		}
		return "var:" + o.Name()
	case *types.Builtin:
		return "builtin." + o.Name()
	}
	return ""
}

// constString returns the constant string value of an expression, if it has one.
func constString(info *types.Info, e ast.Expr) (string, bool) {
	tv, ok := info.Types[e]
	if !ok || tv.Value == nil {
		return "", false
	}
	if tv.Value.Kind().String() != "String" {
		return "", false
	}
	s := tv.Value.ExactString()
	// ExactString quotes
	var out string
	if _, err := fmt.Sscanf(s, "%q", &out); err == nil {
		return out, true
	}
	return strings.Trim(s, "\""), true
}

func exprString(e ast.Node) string {
	if e == nil {
		return ""
	}
	if x, ok := e.(ast.Expr); ok {
		return types.ExprString(x)
	}
	return fmt.Sprintf("%T", e)
}

// namedTypeID renders a (pointer to) named type as "pkg/core.Bundle".
func namedTypeID(t types.Type) string {
	if t == nil {
		return ""
	}
	if pt, ok := t.(*types.Pointer); ok {
		t = pt.Elem()
	}
	if nt, ok := t.(*types.Named); ok {
		pk := ""
		if nt.Obj().Pkg() != nil {
			pk = strings.TrimPrefix(nt.Obj().Pkg().Path(), modPrefix)
		}
		return pk + "." + nt.Obj().Name()
	}
	return t.String()
}

func isErrorType(t types.Type) bool {
	if t == nil {
		return false
	}
	nt, ok := t.(*types.Named)
	return ok && nt.Obj().Pkg() == nil && nt.Obj().Name() == "error"
}

// indexPkg registers the declared functions (and package-level function literals) of one package.
func (p *Prog) indexPkg(pk *packages.Package) {
	for _, f := range pk.Syntax {
		p.NFiles++
		for _, d := range f.Decls {
			if gd, ok := d.(*ast.GenDecl); ok && gd.Tok == token.VAR {
				// function literals in package-level variable initialisers (cobra commands...) become pseudo-functions
				for _, sp := range gd.Specs {
					vs, ok := sp.(*ast.ValueSpec)
					if !ok || len(vs.Names) == 0 {
						continue
					}
					k := 0
					for _, val := range vs.Values {
						var visit func(n ast.Node) bool
						visit = func(n ast.Node) bool {
							lit, ok := n.(*ast.FuncLit)
							if !ok {
								return true
							}
							sig, _ := pk.TypesInfo.TypeOf(lit).(*types.Signature)
							if sig == nil {
								return false
							}
							k++
							name := "var." + vs.Names[0].Name + "#lit" + itoa(k)
							obj := types.NewFunc(lit.Pos(), pk.Types, name, sig)
							fi := &FuncInfo{ID: strings.TrimPrefix(pk.PkgPath, modPrefix) + "." + name, Obj: obj, Pkg: pk,
								Decl: &ast.FuncDecl{Name: ast.NewIdent(name), Type: lit.Type, Body: lit.Body}}
							ast.Inspect(lit.Body, func(m ast.Node) bool {
								if l, ok := m.(*ast.FuncLit); ok {
									fi.Lits = append(fi.Lits, l)
									p.litOwner[l] = fi
								}
								return true
							})
							p.funcs[fi.ID] = fi
							p.byObj[obj] = fi
							p.NFuncs++
							return false
						}
						ast.Inspect(val, visit)
					}
				}
				continue
			}
			fd, ok := d.(*ast.FuncDecl)
			if !ok {
				continue
			}
			obj, _ := pk.TypesInfo.Defs[fd.Name].(*types.Func)
			if obj == nil {
				continue
			}
			fi := &FuncInfo{ID: funcID(obj), Decl: fd, Obj: obj, Pkg: pk}
			if fd.Body != nil {
				ast.Inspect(fd.Body, func(n ast.Node) bool {
					if l, ok := n.(*ast.FuncLit); ok {
						fi.Lits = append(fi.Lits, l)
						p.litOwner[l] = fi
					}
					return true
				})
			}
			if fd.Name.Name == "init" || fd.Name.Name == "_" {
				continue
			}
			p.funcs[fi.ID] = fi
			p.byObj[obj] = fi
			p.NFuncs++
		}
	}

}
