package main

import (
	"fmt"
	"os"
	"path/filepath"
	"runtime"
	"sort"
	"strings"
)

// witness is a mutation witness: a small textual edit of /repo (applied in memory through the loader's overlay,
// nothing is written to disk) that breaks exactly one clause while still compiling. The named rule must fire.
// If the anchor text no longer exists in /repo the witness is skipped and reported, it never fails a property.
type witness struct {
	Prop   string
	Name   string
	File   string // relative to the repo root
	Old    string
	New    string
	Expect string // substring of the rule id that must report a violation
}

type witnessResult struct {
	Name   string `json:"name"`
	Status string `json:"status"` // detected | missed | skipped | not-compiling
	Detail string `json:"detail"`
}

var witnesses []witness

// witnessBase, when set, is the loaded unchanged program: witnesses that only edit function bodies are evaluated by
// re-type-checking the edited package alone (Prog.withFile) instead of a full load.
var witnessBase *Prog

func addWitness(w witness) { witnesses = append(witnesses, w) }

func witnessesFor(prop string) []witness {
	var out []witness
	for _, w := range witnesses {
		if w.Prop == prop {
			out = append(out, w)
		}
	}
	sort.Slice(out, func(i, j int) bool { return out[i].Name < out[j].Name })
	return out
}

func runWitnesses(repo string, ws []witness) []witnessResult {
	var res []witnessResult
	if witnessBase == nil || witnessBase.RepoDir != repo {
		witnessBase = loadProg(repo, "", nil)
	}
	for _, w := range ws {
		res = append(res, runWitness(repo, w))
		runtime.GC()
	}
	return res
}

func runWitness(repo string, w witness) (r witnessResult) {
	r.Name = w.Name
	path := filepath.Join(repo, w.File)
	src, err := os.ReadFile(path)
	if err != nil {
		r.Status, r.Detail = "skipped", "file not found: "+w.File
		return
	}
	if strings.Count(string(src), w.Old) != 1 {
		r.Status, r.Detail = "skipped", fmt.Sprintf("anchor text occurs %d times in %s (repository edited): witness not applicable", strings.Count(string(src), w.Old), w.File)
		return
	}
	mutated := strings.Replace(string(src), w.Old, w.New, 1)
	defer func() {
		if rec := recover(); rec != nil {
			if u, ok := rec.(undecidedErr); ok {
				if strings.Contains(u.msg, "does not type-check") {
					r.Status, r.Detail = "not-compiling", u.msg
					return
				}
				// an UNDECIDED outcome on a witness means the rule noticed that its anchor changed shape
				r.Status, r.Detail = "detected", "rule reported UNDECIDED: "+u.msg
				return
			}
			panic(rec)
		}
	}()
	var p *Prog
	if witnessBase != nil && witnessBase.RepoDir == repo {
		if np, ok, why := witnessBase.withFile(path, []byte(mutated)); ok {
			p = np
		} else if strings.Contains(why, "does not type-check") {
			r.Status, r.Detail = "not-compiling", why
			return
		}
	}
	if p == nil {
		p = loadProg(repo, "", map[string][]byte{path: []byte(mutated)})
	}
	spec := registry[w.Prop]
	c := newCtx(w.Prop, "witness", p)
	spec.runAll(c)
	if spec.thorough != nil {
		spec.thorough(c)
	}
	for _, o := range c.Obs {
		if o.Verdict == VIOLATION && matchesAny(o.Rule, w.Expect) {
			r.Status, r.Detail = "detected", o.Rule+" "+o.Key+": "+oneLine(o.Detail)
			return
		}
	}
	if len(c.Undec) > 0 {
		r.Status, r.Detail = "detected", "rule reported UNDECIDED: "+c.Undec[0]
		return
	}
	r.Status = "missed"
	r.Detail = fmt.Sprintf("expected a violation of a rule matching %q; got %d obligations and none violated it", w.Expect, len(c.Obs))
	return
}

// runSelftest runs every witness (or those of one property) and prints a table. Exit 1 if one is missed.
func runSelftest(repo, verif, prop string) int {
	var ws []witness
	if prop == "" || prop == "all" {
		ws = append(ws, witnesses...)
		sort.Slice(ws, func(i, j int) bool { return ws[i].Prop+ws[i].Name < ws[j].Prop+ws[j].Name })
	} else {
		ws = witnessesFor(prop)
	}
	rc := 0
	counts := map[string]int{}
	witnessBase = loadProg(repo, "", nil)
	for _, w := range ws {
		r := runWitness(repo, w)
		counts[r.Status]++
		fmt.Printf("%-4s %-44s %-13s %s\n", w.Prop, w.Name, r.Status, oneLine(r.Detail))
		if r.Status == "missed" {
			rc = 1
		}
		runtime.GC()
	}
	fmt.Printf("witnesses=%d detected=%d missed=%d skipped=%d not-compiling=%d\n", len(ws), counts["detected"], counts["missed"], counts["skipped"], counts["not-compiling"])
	return rc
}

// matchesAny: expect is a `|`-separated list of substrings of rule ids.
func matchesAny(rule, expect string) bool {
	for _, e := range strings.Split(expect, "|") {
		if strings.Contains(rule, e) {
			return true
		}
	}
	return false
}
