package main

import (
	"go/ast"
	"go/token"
	"strings"
)

// C08 — labels.

// nnfDisjuncts: the top-level disjuncts of a condition after pushing negations inward (De Morgan), each rendered
// with describeExpr. A disjunct that is a conjunction is rendered "(a&&b)".
func nnfDisjuncts(f *FuncInfo, e ast.Expr) []string {
	n := nnf(e, false)
	var out []string
	var collect func(x *boolNode)
	collect = func(x *boolNode) {
		if x.op == "||" {
			for _, k := range x.kids {
				collect(k)
			}
			return
		}
		out = append(out, x.render(f))
	}
	collect(n)
	return out
}

type boolNode struct {
	op   string // "||", "&&", "atom"
	kids []*boolNode
	atom ast.Expr
	neg  bool
}

func nnf(e ast.Expr, neg bool) *boolNode {
	e = ast.Unparen(e)
	switch x := e.(type) {
	case *ast.UnaryExpr:
		if x.Op == token.NOT {
			return nnf(x.X, !neg)
		}
	case *ast.BinaryExpr:
		switch x.Op {
		case token.LOR, token.LAND:
			op := "||"
			if x.Op == token.LAND {
				op = "&&"
			}
			if neg {
				if op == "||" {
					op = "&&"
				} else {
					op = "||"
				}
			}
			n := &boolNode{op: op}
			for _, k := range []ast.Expr{x.X, x.Y} {
				kn := nnf(k, neg)
				if kn.op == op {
					n.kids = append(n.kids, kn.kids...)
				} else {
					n.kids = append(n.kids, kn)
				}
			}
			return n
		case token.EQL, token.NEQ:
			if neg {
				op := token.NEQ
				if x.Op == token.NEQ {
					op = token.EQL
				}
				return &boolNode{op: "atom", atom: &ast.BinaryExpr{X: x.X, Op: op, Y: x.Y, OpPos: x.OpPos}}
			}
		}
	}
	return &boolNode{op: "atom", atom: e, neg: neg}
}

func (n *boolNode) render(f *FuncInfo) string {
	if n.op == "atom" {
		s := describeExpr(f, n.atom, 0)
		if n.neg {
			return "!" + s
		}
		return s
	}
	var parts []string
	for _, k := range n.kids {
		parts = append(parts, k.render(f))
	}
	return "(" + strings.Join(parts, n.op) + ")"
}

func init() {
	register(&propSpec{
		id: "C08",
		explanation: "Static structural clauses for labels: (a) the label path builder and the path parser agree on the repo and label-name segments and the label listing prefix ends with '/' (abstract string evaluation); the listing iterates GetArchivePathPrefixToLabels(repo, prefix) on the versioned metadata store; " +
			"(b) setting a label writes exactly one key, the label key, with OverWrite, into VMetadata, and touches no bundle key; " +
			"(c) every path into that write is dominated by a parse-back validation of the key whose failure (parser error, or parsed name/repo differing from the label's) returns an error — any name the API accepts can be listed and resolved; " +
			"(d) DeleteLabel deletes exactly the label key of (repo, name); getLabelAsync takes the name from the parsed key, downloads that label and cross-checks the descriptor's name. " +
			"Not decided: last-writer-wins of the store, versioned listings.",
		run: runC08,
	})
	addWitness(witness{Prop: "C08", Name: "guard-de-morgan-slip", File: "pkg/core/label.go",
		Old: "if err != nil || apc.LabelName != label.Descriptor.Name || apc.Repo != bundle.RepoID {", New: "if err != nil || !(apc.LabelName == label.Descriptor.Name || apc.Repo == bundle.RepoID) {",
		Expect: "validated-before-write"})
	addWitness(witness{Prop: "C08", Name: "label-path-join-refactor", File: "pkg/model/label.go",
		Old: "\treturn fmt.Sprint(getArchivePathToLabels(), repo+\"/\"+strings.Join(prefixes, \"/\"))", New: "\treturn getArchivePathToLabels() + repo + strings.Join(prefixes, \"/\")",
		Expect: "label-paths"})
	addWitness(witness{Prop: "C08", Name: "label-no-overwrite", File: "pkg/core/label.go",
		Old: "err = bundle.contextStores.VMetadata().Put(ctx, archivePath, bytes.NewReader(buffer), storage.OverWrite)", New: "err = bundle.contextStores.VMetadata().Put(ctx, archivePath, bytes.NewReader(buffer), storage.NoOverWrite)",
		Expect: "label-write"})
	addWitness(witness{Prop: "C08", Name: "delete-label-other-store", File: "pkg/core/delete.go",
		Old: "\tstore := stores.VMetadata()\n\tpth := model.GetArchivePathToLabel(repo, name)", New: "\tstore := stores.Metadata()\n\tpth := model.GetArchivePathToLabel(repo, name)",
		Expect: "delete-label"})
	addWitness(witness{Prop: "C08", Name: "list-name-mismatch-tolerated", File: "pkg/core/label_list.go",
		Old:    "\t\t} else if label.Descriptor.Name != apc.LabelName {\n\t\t\toutput <- labelEvent{err: fmt.Errorf(\"label names in descriptor '%v' and archive path '%v' don't match\", label.Descriptor.Name, apc.LabelName)}\n\t\t\tcontinue\n\t\t}",
		New:    "\t\t} else if label.Descriptor.Name != apc.LabelName {\n\t\t\t_ = fmt.Sprintf(\"mismatch %v\", apc.LabelName)\n\t\t}",
		Expect: "list-resolves-name"})
}

func runC08(c *Ctx) {
	p := c.P
	c.assume("the versioned metadata store returns the last bytes written under a key (last-writer-wins)")
	// (a) paths
	{
		bf := p.Func("pkg/model.GetArchivePathToLabel")
		ts, why := evalBuilder(p, bf)
		if why != "" || len(ts) != 1 {
			undecided("label path builder cannot be evaluated (%s)", why)
		}
		segs := ts[0].segments()
		okT := len(segs) == 4 && segs[0].String() == "labels" && segs[1].String() == "{0}" && segs[2].String() == "{1}" && segs[3].String() == "label.yaml"
		c.check(okT, "label-paths.builder", bf.ID, p.Pos(bf.Decl.Pos()), "label key is `"+ts[0].String()+"`", "the label key template is `"+ts[0].String()+"`, expected labels/{repo}/{label}/label.yaml")
		rows, why2 := parserTable(p, p.Func("pkg/model.GetArchivePathComponents"))
		if why2 != "" {
			undecided("parser table: %s", why2)
		}
		okP := false
		for _, r := range rows {
			if r.First == "labels" && r.Fields["Repo"] == 1 && r.Fields["LabelName"] == 2 && r.Fields["ArchiveFileName"] == 3 {
				okP = true
			}
		}
		c.check(okP, "label-paths.parser", "pkg/model.GetArchivePathComponents:labels", "-", "the parser reads Repo@1, LabelName@2, file@3 in the labels clause", "the parser's labels clause no longer reads Repo@1 / LabelName@2 / file@3: listed label names differ from the names that were set")
		pf := p.Func("pkg/model.GetArchivePathPrefixToLabels")
		pts, why3 := evalBuilder(p, pf)
		if why3 != "" || len(pts) == 0 {
			undecided("label prefix builder cannot be evaluated (%s)", why3)
		}
		noPrefix, okNP := instNoOpt(pts, map[int]string{0: "exp"})
		if !okNP {
			undecided("label prefix builder evaluates to %d templates", len(pts))
		}
		withPrefix := ""
		for _, t := range pts {
			for _, part := range t {
				if part.slot >= 0 && part.opt {
					withPrefix = t.instantiate(map[int]string{0: "exp", 1: "v1"})
				}
			}
		}
		c.check(noPrefix == "labels/exp/" && withPrefix == "labels/exp/v1", "label-paths.prefix", pf.ID, p.Pos(pf.Decl.Pos()),
			"listing prefix is labels/{repo}/ (+ optional name prefix)", "the label listing prefix evaluates to `"+noPrefix+"` / `"+withPrefix+"` instead of labels/exp/ and labels/exp/v1: labels of repositories whose names share a prefix are mixed up")
		// the listing uses it on the label store
		lf := p.Func("pkg/core.listLabelsChan")
		okL := false
		ast.Inspect(lf.Decl.Body, func(n ast.Node) bool {
			if call, ok := n.(*ast.CallExpr); ok && calleeID(lf.Info(), call) == "pkg/storage.Store.KeysPrefix" && len(call.Args) == 5 {
				d := describeExpr(lf, call.Args[2], 0)
				recv := describeExpr(lf, ast.Unparen(call.Fun).(*ast.SelectorExpr).X, 0)
				if strings.HasPrefix(d, "call:pkg/model.GetArchivePathPrefixToLabels(param#0,") && recv == "call:pkg/core.getLabelStore(param#1)" && describeExpr(lf, call.Args[3], 0) == "const:\"\"" {
					okL = true
				}
			}
			return true
		})
		c.check(okL, "label-paths.listing", lf.ID, p.Pos(lf.Decl.Pos()), "labels are listed under GetArchivePathPrefixToLabels(repo, prefix) of the label store", "label listing no longer scans GetArchivePathPrefixToLabels(repo, prefix) on the label store")
		gs := p.Func("pkg/core.getLabelStore")
		okS := false
		ast.Inspect(gs.Decl.Body, func(n ast.Node) bool {
			if r, ok := n.(*ast.ReturnStmt); ok && len(r.Results) == 1 && describeExpr(gs, r.Results[0], 0) == "param#0.VMetadata()" {
				okS = true
			}
			return true
		})
		c.check(okS, "label-paths.listing", gs.ID, p.Pos(gs.Decl.Pos()), "the label store is the versioned metadata store", "getLabelStore no longer returns stores.VMetadata(): labels are listed from another store than the one they are written to")
	}
	// (b) the label write
	uf := p.Func("pkg/core.Label.UploadDescriptor")
	{
		n := 0
		for _, s := range enumPutSites(p, "pkg/core") {
			if s.Fn.ID != uf.ID {
				continue
			}
			n++
			recv := describeExpr(uf, ast.Unparen(s.Call.Fun).(*ast.SelectorExpr).X, 0)
			okStore := recv == "param#1.contextStores.VMetadata()" || strings.HasPrefix(recv, "param#1.contextStores.VMetadata().(")
			c.check(s.Kind == "label" && s.Mode == "OverWrite" && okStore, "label-write", s.Key, p.Pos(s.Call.Pos()),
				"the label key is written with OverWrite into VMetadata",
				"UploadDescriptor writes key kind "+s.Kind+" with mode "+s.Mode+" into `"+recv+"`: a label must be (over)written under its own key in VMetadata only")
		}
		c.check(n == 2, "label-write", uf.ID+":sites", p.Pos(uf.Decl.Pos()), "exactly the CRC and plain variants of one write", "UploadDescriptor performs "+itoa(n)+" store writes (expected the CRC/plain pair of one write): setting a label must change nothing else")
		// key arguments: (bundle.RepoID, label.Descriptor.Name)
		for _, cs := range callersOf(p, "pkg/model.GetArchivePathToLabel") {
			if cs.Fn.ID != uf.ID {
				continue
			}
			a0, a1 := describeExpr(uf, cs.Call.Args[0], 0), describeExpr(uf, cs.Call.Args[1], 0)
			c.check(a0 == "param#1.RepoID" && a1 == "recv.Descriptor.Name", "label-write", callKey(uf, cs.Call), p.Pos(cs.Call.Pos()), "label key built from (bundle.RepoID, label.Descriptor.Name)", "label key built from (`"+a0+"`, `"+a1+"`)")
		}
		// no delete in UploadDescriptor
		for _, d := range enumStoreCalls(p, "Delete", 1, "pkg/core") {
			if d.Fn.ID == uf.ID {
				c.fail("label-write", d.Key, p.Pos(d.Call.Pos()), "setting a label deletes a key")
			}
		}
		// the descriptor written carries the bundle ID of the target bundle
		okID := false
		ast.Inspect(uf.Decl.Body, func(n ast.Node) bool {
			if as, ok := n.(*ast.AssignStmt); ok && len(as.Lhs) == 1 && describeExpr(uf, as.Lhs[0], 0) == "recv.Descriptor.BundleID" && describeExpr(uf, as.Rhs[0], 0) == "param#1.BundleID" {
				okID = true
			}
			return true
		})
		c.check(okID, "label-write", uf.ID+":bundle-id", p.Pos(uf.Decl.Pos()), "the stored descriptor points at the bundle given to the call", "UploadDescriptor no longer stores the given bundle's ID in the label")
	}
	// (c) validated before written
	{
		b := p.BodyOf(uf)
		isValidate := callTo("pkg/model.GetArchivePathComponents", "pkg/model.ValidateLabel")
		isPut := callTo("pkg/storage.Store.Put", "pkg/storage.StoreCRC.PutCRC")
		bad, nB := b.dominatedBy(isValidate, isPut)
		c.check(nB > 0 && len(bad) == 0, "validated-before-write.dominates", uf.ID, p.Pos(uf.Decl.Pos()), "every path to the label write passes the parse-back validation", "the label can be written without validating that its name parses back from its key: a name the listing cannot parse breaks ListLabels for the whole repository")
		// the guard right after the parse-back: must reject on error, on name mismatch and on repo mismatch, each unconditionally
		var guard *ast.IfStmt
		ast.Inspect(uf.Decl.Body, func(n ast.Node) bool {
			if ifs, ok := n.(*ast.IfStmt); ok && guard == nil {
				for _, d := range nnfDisjuncts(uf, ifs.Cond) {
					if strings.Contains(d, "call:pkg/model.GetArchivePathComponents(") && strings.Contains(d, "#0.LabelName") {
						guard = ifs
					}
				}
			}
			return true
		})
		if guard == nil {
			c.fail("validated-before-write.guard", uf.ID, p.Pos(uf.Decl.Pos()), "no test of the parse-back result found")
		} else {
			ds := nnfDisjuncts(uf, guard.Cond)
			has := func(pred func(string) bool) bool {
				for _, d := range ds {
					if pred(d) {
						return true
					}
				}
				return false
			}
			apc := "call:pkg/model.GetArchivePathComponents(call:pkg/model.GetArchivePathToLabel(param#1.RepoID,recv.Descriptor.Name))"
			// (the error variable is shared by several calls of the function: its flow-insensitive description is the
			// set of its definitions, which must include the parser's error)
			okErr := has(func(d string) bool {
				return d == "("+apc+"#1!=nil)" || strings.HasPrefix(d, "({") && strings.HasSuffix(d, "}!=nil)") && strings.Contains(d, "|"+apc+"#1|")
			})
			okName := has(func(d string) bool {
				return d == "("+apc+"#0.LabelName!=recv.Descriptor.Name)" || d == "(recv.Descriptor.Name!="+apc+"#0.LabelName)"
			})
			okRepo := has(func(d string) bool {
				return d == "("+apc+"#0.Repo!=param#1.RepoID)" || d == "(param#1.RepoID!="+apc+"#0.Repo)"
			})
			okRet := false
			if l := len(guard.Body.List); l > 0 {
				if r, ok := guard.Body.List[l-1].(*ast.ReturnStmt); ok && b.classifyReturn(r) == retFailure {
					okRet = true
				}
			}
			c.check(okErr && okName && okRepo && okRet, "validated-before-write.guard", uf.ID, p.Pos(guard.Pos()),
				"the write is refused when the key does not parse, or parses to another name or repository",
				"the parse-back guard is `"+strings.Join(ds, " || ")+"`: it must reject unconditionally on (parser error) || (parsed name != label name) || (parsed repo != repo) and return an error — otherwise some accepted names cannot be listed or resolved")
		}
	}
	// (d) delete and list
	{
		f := p.Func("pkg/core.DeleteLabel")
		n := 0
		for _, d := range enumStoreCalls(p, "Delete", 1, "pkg/core") {
			if d.Fn.ID != f.ID {
				continue
			}
			n++
			key := describeExpr(f, d.Call.Args[1], 0)
			recv := describeExpr(f, ast.Unparen(d.Call.Fun).(*ast.SelectorExpr).X, 0)
			c.check(key == "call:pkg/model.GetArchivePathToLabel(param#0,param#2)" && recv == "param#1.VMetadata()", "delete-label", d.Key, p.Pos(d.Call.Pos()),
				"DeleteLabel deletes GetArchivePathToLabel(repo, name) in VMetadata", "DeleteLabel deletes `"+key+"` in `"+recv+"`")
		}
		c.check(n == 1, "delete-label", f.ID+":sites", p.Pos(f.Decl.Pos()), "exactly one key is deleted", "DeleteLabel deletes "+itoa(n)+" keys")
		checkErrDiscipline(c, "delete-label.errors", f, func(id string) bool { return id == "pkg/storage.Store.Delete" || id == "pkg/core.RepoExists" }, nil)
	}
	checkLabelListResolvesName(c)
	// DownloadDescriptor reads the label key of (repo, name) from the label store
	{
		f := p.Func("pkg/core.Label.DownloadDescriptor")
		okKey := false
		for _, cs := range callersOf(p, "pkg/model.GetArchivePathToLabel") {
			if cs.Fn.ID == f.ID && describeExpr(f, cs.Call.Args[0], 0) == "param#1.RepoID" && describeExpr(f, cs.Call.Args[1], 0) == "recv.Descriptor.Name" {
				okKey = true
			}
		}
		c.check(okKey, "get-label", f.ID, p.Pos(f.Decl.Pos()), "a label is resolved from GetArchivePathToLabel(bundle.RepoID, label.Descriptor.Name)", "DownloadDescriptor no longer reads the key built from (bundle.RepoID, label.Descriptor.Name)")
		checkErrDiscipline(c, "get-label.errors", f, func(id string) bool {
			return strings.HasPrefix(id, "pkg/storage.") || id == "io/ioutil.ReadAll" || id == "gopkg.in/yaml.v2.Unmarshal" || id == "pkg/core.RepoExists"
		}, nil)
	}
	// a live label is never silently absent from a listing: only a descriptor that does not exist is skipped
	checkSilentSkipOnlyNotExists(c, c.P.BodyOf(c.P.Func("pkg/core.getLabelAsync")), "listing.skip-only-not-exists", false)
	checkNoRelabelAsMissing(c, "listing.no-relabel")
	checkGenericErrorDiscipline(c, "pkg/core", "pkg/model")
	checkBatchDistributesAllKeys(c, "listing.batch-distributes-all")
	checkLabelVersionSplitGuarded(c, "listing.version-split-guarded")
	if checkModelOptionSettersVerbatim(c, "names.option-setters-verbatim") < 3 {
		c.fail("names.option-setters-verbatim", "pkg/model:setters", "-", "expected at least 3 string option setters in pkg/model")
	}
	checkLabelVersionSwitch(c, "resolve.version-switch")
}

func types_ExprString(e ast.Expr) string { return exprString(e) }

// checkLabelListResolvesName (C08, pooled): a listed label is downloaded under the name parsed from its key, a
// descriptor naming another label is an error, and a label is emitted only when its descriptor was read.
func checkLabelListResolvesName(c *Ctx) {
	p := c.P
	{
		f := p.Func("pkg/core.getLabelAsync")
		info := f.Info()
		// the label name used for the download is the parsed one
		okName := false
		okCross := false
		ast.Inspect(f.Decl.Body, func(n ast.Node) bool {
			if call, ok := n.(*ast.CallExpr); ok && calleeID(info, call) == "pkg/model.LabelName" && len(call.Args) == 1 {
				if d := describeExpr(f, call.Args[0], 0); strings.HasSuffix(d, "#0.LabelName") && strings.HasPrefix(d, "call:pkg/model.GetArchivePathComponents(") {
					okName = true
				}
			}
			if ifs, ok := n.(*ast.IfStmt); ok {
				if be, ok := ast.Unparen(ifs.Cond).(*ast.BinaryExpr); ok && be.Op == token.NEQ {
					x, y := types_ExprString(be.X), types_ExprString(be.Y)
					if strings.HasSuffix(x, ".Descriptor.Name") && strings.HasSuffix(y, ".LabelName") || strings.HasSuffix(y, ".Descriptor.Name") && strings.HasSuffix(x, ".LabelName") {
						// must report an error
						hasErrSend := false
						ast.Inspect(ifs.Body, func(m ast.Node) bool {
							if s, ok := m.(*ast.SendStmt); ok {
								if cl, ok := ast.Unparen(s.Value).(*ast.CompositeLit); ok && fieldOfCompositeLit(cl, "err") != nil {
									hasErrSend = true
								}
							}
							return true
						})
						if hasErrSend && blockDiverts(ifs.Body.List) {
							okCross = true
						}
					}
				}
			}
			return true
		})
		c.check(okName, "list-resolves-name", f.ID+":name-from-key", p.Pos(f.Decl.Pos()), "the listed label is downloaded under the name parsed from its key", "getLabelAsync no longer downloads the label under the name parsed from its key")
		c.check(okCross, "list-resolves-name", f.ID+":cross-check", p.Pos(f.Decl.Pos()), "a descriptor whose name differs from the key's is reported as an error", "getLabelAsync no longer rejects a descriptor whose name differs from the name in its key: listing can return a label under a name that does not resolve")
		// bundle events only after successful download
		b := p.BodyOf(f)
		isDl := callTo("pkg/core.Label.DownloadDescriptor")
		isSend := func(n ast.Node) bool {
			s, ok := n.(*ast.SendStmt)
			if !ok {
				return false
			}
			cl, ok := ast.Unparen(s.Value).(*ast.CompositeLit)
			return ok && fieldOfCompositeLit(cl, "label") != nil
		}
		bad, nT, nA := b.guardedByNilErr(isDl, isSend)
		c.check(nT > 0 && nA > 0 && len(bad) == 0, "list-resolves-name", f.ID+":send-label", p.Pos(f.Decl.Pos()), "a label is emitted only when its descriptor was downloaded", "a label is emitted although its descriptor download failed or was not checked")
	}
}
