package main

import (
	"go/ast"
	"go/constant"
	"go/token"
	"go/types"
	"strings"

	"golang.org/x/tools/go/cfg"
)

// C17 — a read-only mount shows exactly the bundle. Structural clauses on pkg/fuse (read-only file system):
//   tables:    insertDirEntry / insertFsEntry fill fsEntryStore, lookupTree and readDirMap consistently (sibling
//              agreement), fail on any update of an existing key, and number directory entries position+1
//   readdir:   ReadDir resumes at children[offset], accounts every written entry, and once an entry does not fit
//              writes nothing more (a later, shorter entry written after a gap makes the kernel resume beyond the
//              skipped child)
//   populate:  inode numbers come from one counter declared outside the entry loop, strictly above the root inode;
//              every queued node gets its parent inode before it is inserted; no pointer into the queue survives an
//              append to it
//   plumbing:  BundleEntry -> FsEntry -> attributes; LookUpInode / GetInodeAttributes / ReadFile / readAtBundle hand
//              the caller's inode, offset and buffer through unchanged and return the count of the backend read
//   keys:      formKey is fixed-width big endian, formLookupKey = formKey(parent) ++ name

const (
	iradixTxnInsert = "github.com/hashicorp/go-immutable-radix.Txn.Insert"
	iradixTxnGet    = "github.com/hashicorp/go-immutable-radix.Txn.Get"
	iradixTreeGet   = "github.com/hashicorp/go-immutable-radix.Tree.Get"
	writeDirentID   = "github.com/jacobsa/fuse/fuseutil.WriteDirent"
	direntTypeID    = "github.com/jacobsa/fuse/fuseutil.Dirent"
)

func init() {
	register(&propSpec{
		id: "C17",
		explanation: "Static structural clauses for the read-only mount, decided on the type-checked source and CFGs of pkg/fuse for all paths: " +
			"(1) insertDirEntry and insertFsEntry agree: each inserts the entry under formKey(entry.iNode) into fsEntryStore and under formLookupKey(parent, base(fullPath)) into lookupTree, the same FsEntry value in both, fails with a non-nil error on any update of an existing key, and appends to readDirMap[parent] a Dirent{Offset: len+1, Inode: entry.iNode, Name: base(fullPath), Type: directory resp. file}; " +
			"(2) ReadDir starts at children[int(op.Offset)] (writer numbers position+1, so the offset of the last returned entry is the index of the next one), writes into op.Dst[op.BytesRead:], adds every non-zero WriteDirent result to op.BytesRead before the next write, and after a WriteDirent that returned 0 no further WriteDirent is reachable; a sliced form children[offset:] must be dominated by the offset>len guard; " +
			"(3) populate: the inode counter handed to WithINode is declared outside the loop over bundle entries and starts at the constant firstINode > RootInodeID; every newFsEntry in WithNodesFromEntry draws its inode from the incrementing closure; a 4-state dataflow over the queue (previous/last element patched or not) shows that every node queued with an undefined parent gets its parent inode (from the next queued node, from the directory found in dirStore, or the root constant) before WithNodesFromEntry returns; no pointer to a queue element is retained across an append to the queue; the queue is emptied between entries; " +
			"(4) record plumbing: newFsEntry maps NameWithPath/Hash/Size/inode/link count, directories are exactly the entries with an empty hash, populateFSAddNodes selects the inserter on the directory link count (distinct from the file link count); LookUpInode answers from lookupTree under formLookupKey(op.Parent, op.Name) with the entry's inode and attributes and ENOENT otherwise; GetInodeAttributes and ReadFile resolve op.Inode through formKey in fsEntryStore; ReadFile passes op.Dst and op.Offset unchanged to readAtBundle and stores its count in op.BytesRead; readAtBundle reads the staged file by fullPath resp. the cafs object by hash with ReadAt(destination, offset) unchanged and returns ReadAt's count; " +
			"(5) formKey is an 8-byte big-endian encoding and formLookupKey appends the name to it, so distinct (parent, name) pairs have distinct keys; " +
			"(6) every directory inserted is listable: the root gets a readDirMap key even when the bundle has no entry. " +
			"Not decided: equality of the mounted tree with the bundle for concrete trees, the byte contents returned by the cafs reader (C01/C03 clauses), kernel caching behaviour.",
		run: runC17,
	})
	addWitness(witness{Prop: "C17", Name: "cafs-reader-before-descriptor", File: "pkg/fuse/fs.go",
		Old:    "\tfs.l = fs.l.With(zap.String(\"repo\", bundle.RepoID), zap.String(\"bundle\", bundle.BundleID))\n",
		New:    "\tfs.l = fs.l.With(zap.String(\"repo\", bundle.RepoID), zap.String(\"bundle\", bundle.BundleID))\n\tif fs.streamed {\n\t\tearly, err := cafs.New(cafs.LeafSize(bundle.BundleDescriptor.LeafSize), cafs.Backend(bundle.BlobStore()))\n\t\tif err != nil {\n\t\t\treturn nil, err\n\t\t}\n\t\tfs.cafs = early\n\t}\n",
		Expect: "mount.leaf-size-after-descriptor"})
	addWitness(witness{Prop: "C07", Name: "merge-stage-drops-page-error", File: "pkg/core/keys.go",
		Old:    "\t\terr := batch.err // a failed key page is forwarded, not dropped: the listing must not look complete\n\t\tfiltered :=",
		New:    "\t\tvar err error\n\t\tfiltered :=",
		Expect: "stages-forward-errors"})
	addWitness(witness{Prop: "C17", Name: "readdir-skips-entry-that-does-not-fit", File: "pkg/fuse/fs_ro_ops.go",
		Old:    "\t\tn := fuseutil.WriteDirent(op.Dst[op.BytesRead:], children[i])\n\t\tif n == 0 {\n\t\t\tbreak\n\t\t}",
		New:    "\t\tn := fuseutil.WriteDirent(op.Dst[op.BytesRead:], children[i])\n\t\tif n == 0 {\n\t\t\tcontinue\n\t\t}",
		Expect: "readdir.no-write-after-full"})
	addWitness(witness{Prop: "C17", Name: "readdir-resumes-one-late", File: "pkg/fuse/fs_ro_ops.go",
		Old:    "\tfor i := offset; i < len(children); i++ {\n\t\tn := fuseutil.WriteDirent(",
		New:    "\tfor i := offset + 1; i < len(children); i++ {\n\t\tn := fuseutil.WriteDirent(",
		Expect: "readdir.resume-index"})
	addWitness(witness{Prop: "C17", Name: "dirent-offset-is-position", File: "pkg/fuse/fs_ro_ops.go",
		Old:    "\t\tOffset: fuseops.DirOffset(len(childEntries) + 1),\n\t\tInode:  fsEntry.iNode,",
		New:    "\t\tOffset: fuseops.DirOffset(len(childEntries)),\n\t\tInode:  fsEntry.iNode,",
		Expect: "tables.dirent"})
	addWitness(witness{Prop: "C17", Name: "file-lookup-under-full-path", File: "pkg/fuse/fs_ro_ops.go",
		Old:    "\tkey = formLookupKey(parentInode, base)\n",
		New:    "\tkey = formLookupKey(parentInode, pth)\n",
		Expect: "tables.lookupTree"})
	addWitness(witness{Prop: "C17", Name: "inode-counter-restarts-per-entry", File: "pkg/fuse/fs_ro_ops.go",
		Old:    "\tinode := firstINode            // iNode for fs entries\n\n\tfor _, bundleEntry := range p.fs.bundle.GetBundleEntries() {\n",
		New:    "\tfor _, bundleEntry := range p.fs.bundle.GetBundleEntries() {\n\t\tinode := firstINode + fuseops.InodeID(len(p.nodesToAdd))\n",
		Expect: "populate.inode-counter"})
	addWitness(witness{Prop: "C17", Name: "found-parent-not-linked", File: "pkg/fuse/fs_ro_ops.go",
		Old:    "\t\t\tif len(p.nodesToAdd) >= 1 {\n\t\t\t\tp.nodesToAdd[len(p.nodesToAdd)-1].parentINode = parentDirEntry.iNode\n\t\t\t}",
		New:    "\t\t\tif len(p.nodesToAdd) > 1 {\n\t\t\t\tp.nodesToAdd[len(p.nodesToAdd)-1].parentINode = parentDirEntry.iNode\n\t\t\t}",
		Expect: "populate.parent-links"})
	addWitness(witness{Prop: "C17", Name: "read-ignores-offset", File: "pkg/fuse/bundle_read.go",
		Old:    "\tn, err := reader.ReadAt(destination, offset)\n\tif errNotEOF(err) {\n\t\tlogger.Error(\"error in stream ReadAt\"",
		New:    "\tn, err := reader.ReadAt(destination, offset&^0xfff)\n\tif errNotEOF(err) {\n\t\tlogger.Error(\"error in stream ReadAt\"",
		Expect: "plumbing.read"})
	addWitness(witness{Prop: "C17", Name: "getattr-by-lookup-key", File: "pkg/fuse/fs_ro_ops.go",
		Old:    "\tkey := formKey(op.Inode)\n\te, found := fs.fsEntryStore.Get(key)",
		New:    "\tkey := formLookupKey(op.Inode, \"\")\n\te, found := fs.lookupTree.Get(key)",
		Expect: "plumbing.getattr"})
	addWitness(witness{Prop: "C17", Name: "childless-directory-not-listable", File: "pkg/fuse/fs_ro_ops.go",
		Old:    "\tif _, listed := fs.readDirMap[dirFsEntry.iNode]; !listed {\n",
		New:    "\tif _, listed := fs.readDirMap[dirFsEntry.iNode]; !listed && parentInode == 0 {\n",
		Expect: "tables.directory-listable"})
	addWitness(witness{Prop: "C17", Name: "stale-queue-pointer", File: "pkg/fuse/fs_ro_ops.go",
		Old:    "\t\tparent, found := p.txns.dirStore.Get([]byte(parentPath))\n\t\tif !found {",
		New:    "\t\tlastq := &p.nodesToAdd[len(p.nodesToAdd)-1]\n\t\tdefer func() { lastq.parentINode += 0 }()\n\t\tparent, found := p.txns.dirStore.Get([]byte(parentPath))\n\t\tif !found {",
		Expect: "populate.no-stale-element-pointer"})
}

// importedConst looks up a constant of an imported (non-repo) package through the importing package.
func importedConst(p *Prog, fromPkg, importPath, name string) (constant.Value, bool) {
	pk := p.Pkg(fromPkg)
	for _, imp := range pk.Types.Imports() {
		if imp.Path() == importPath {
			if c, ok := imp.Scope().Lookup(name).(*types.Const); ok {
				return c.Val(), true
			}
		}
	}
	return nil, false
}

func repoConst(p *Prog, pkgRel, name string) (constant.Value, bool) {
	pk := p.Pkg(pkgRel)
	if c, ok := pk.Types.Scope().Lookup(name).(*types.Const); ok {
		return c.Val(), true
	}
	return nil, false
}

func constDesc(v constant.Value) string { return "const:" + v.ExactString() }

func runC17(c *Ctx) {
	p := c.P
	c.assume("the bundle's entries are the ones core.Publish/PublishMetadata loaded (C04 clauses); iradix transactions behave as maps")
	c.assume("fuseutil.WriteDirent returns 0 exactly when the entry does not fit in the remaining buffer (library contract)")

	dtDir, ok1 := importedConst(p, "pkg/fuse", "github.com/jacobsa/fuse/fuseutil", "DT_Directory")
	dtFile, ok2 := importedConst(p, "pkg/fuse", "github.com/jacobsa/fuse/fuseutil", "DT_File")
	rootID, ok3 := importedConst(p, "pkg/fuse", "github.com/jacobsa/fuse/fuseops", "RootInodeID")
	if !ok1 || !ok2 || !ok3 {
		undecided("fuseutil.DT_Directory / DT_File / fuseops.RootInodeID not found among pkg/fuse's imports")
	}

	// --- (1) tables -----------------------------------------------------------------------------------
	checkROInserter(c, p.Func("pkg/fuse.readOnlyFsInternal.insertDirEntry"), constDesc(dtDir), true)
	checkROInserter(c, p.Func("pkg/fuse.readOnlyFsInternal.insertFsEntry"), constDesc(dtFile), false)
	c.requireInstances("tables.fsEntryStore", 2)
	c.requireInstances("tables.lookupTree", 2)
	c.requireInstances("tables.dirent", 8)
	c.requireInstances("tables.update-fails", 5)

	// --- (2) ReadDir ----------------------------------------------------------------------------------
	checkROReadDir(c)

	// --- (3) populate ---------------------------------------------------------------------------------
	checkPopulate(c, rootID)
	// generic: no pointer to a slice element survives an append to that slice (all of pkg/fuse)
	nPtr := 0
	for _, f := range p.FuncsIn("pkg/fuse") {
		if f.Decl.Body != nil {
			nPtr += checkNoStaleElementPointer(c, "populate.no-stale-element-pointer", f)
		}
	}
	c.ok("populate.no-stale-element-pointer", "pkg/fuse:scan", "-", "scanned every function of pkg/fuse: "+itoa(nPtr)+" element pointers taken, none retained across an append to its slice")

	// --- (4) plumbing ---------------------------------------------------------------------------------
	checkROPlumbing(c, rootID)

	// --- (5) keys -------------------------------------------------------------------------------------
	checkFuseKeys(c, "keys")

	// --- (6) every inserted directory is listable -------------------------------------------------------
	{
		f := p.Func("pkg/fuse.readOnlyFsInternal.insertDirEntry")
		b := p.BodyOf(f)
		// on every path to a success return, readDirMap[dir.iNode] has been given a key (possibly nil/empty)
		ensured := func(n ast.Node) bool {
			as, ok := n.(*ast.AssignStmt)
			if !ok {
				return false
			}
			for _, l := range as.Lhs {
				if describeExprAt(f, l) == "recv.readDirMap[param#2.iNode]" {
					return true
				}
			}
			return false
		}
		const no, yes = 1, 2
		bad := 0
		nSucc := 0
		b.run(flowSpec{
			entry: no,
			node: func(n ast.Node, s uint64) uint64 {
				if ensured(n) {
					return yes
				}
				return s
			},
			edge: func(blk *cfg.Block, i int, s uint64) uint64 {
				// `_, listed := readDirMap[inode]; !listed` false edge: the key exists already
				cond := condOf(blk)
				if cond == nil {
					return s
				}
				e := cond
				neg := false
				if u, ok := ast.Unparen(e).(*ast.UnaryExpr); ok && u.Op == token.NOT {
					e, neg = u.X, true
				}
				id, ok := ast.Unparen(e).(*ast.Ident)
				if !ok {
					return s
				}
				d := describeExprAt(f, id)
				if d != "recv.readDirMap[param#2.iNode]#1" {
					return s
				}
				if (neg && i == 1) || (!neg && i == 0) {
					return yes
				}
				return s
			},
			exit: func(blk *cfg.Block, ret *ast.ReturnStmt, s uint64) {
				if ret != nil && b.classifyReturn(ret) == retFailure {
					return
				}
				nSucc++
				if s&no != 0 {
					bad++
				}
			},
		})
		c.check(bad == 0 && nSucc > 0, "tables.directory-listable", f.ID, p.Pos(f.Decl.Pos()),
			"every success path of insertDirEntry leaves a readDirMap key for the directory itself: a directory without children (the root of an empty bundle) lists as empty",
			"insertDirEntry can succeed without giving the directory a readDirMap key: ReadDir of a directory without children (the root of an empty bundle) answers ENOENT instead of an empty listing")
	}
	// streamed reads: the cafs leaf fetch takes exactly io.EOF as "leaf complete" (shared with C01/C03); failed reads fail
	checkEOFByIdentity(c, "plumbing.read.eof-by-identity")
	checkReadErrorsFail(c, "plumbing.read.errors-fail")
	checkPopulateWalk(c, "populate.walk")
	checkROErrorCodes(c, "plumbing.not-found")
	checkGenericErrorDiscipline(c, "pkg/fuse")
	checkReadAtOffsetWithinLeaf(c, "plumbing.read.offset-within-leaf")
	checkMountDataSource(c, "mount.data-source")
	checkReadAtExits(c, "plumbing.readat-exits")
	checkMountLeafSizeAfterDescriptor(c, "mount.leaf-size-after-descriptor")
	checkGetBuildsItsReader(c, "plumbing.get-builds-its-reader")
	checkWriteToCountsWhatItCopied(c, "plumbing.writeto-counts-what-it-copied")
}

// guardedUpdateFails: `if _, update := X.Insert(k, v); update { return <non-nil error> }`
func guardedUpdateFails(b *Body, call *ast.CallExpr) bool {
	as, ok := b.parent[call].(*ast.AssignStmt)
	if !ok || len(as.Lhs) != 2 {
		return false
	}
	ifs, ok := b.parent[as].(*ast.IfStmt)
	if !ok || ifs.Init != ast.Stmt(as) {
		return false
	}
	upd, ok := as.Lhs[1].(*ast.Ident)
	if !ok {
		return false
	}
	cond, ok := ast.Unparen(ifs.Cond).(*ast.Ident)
	if !ok || b.Info().Uses[cond] == nil || b.Info().Uses[cond] != b.Info().Defs[upd] {
		return false
	}
	if len(ifs.Body.List) == 0 {
		return false
	}
	ret, ok := ifs.Body.List[len(ifs.Body.List)-1].(*ast.ReturnStmt)
	return ok && b.classifyReturn(ret) == retFailure
}

func checkROInserter(c *Ctx, f *FuncInfo, wantType string, isDir bool) {
	p := c.P
	b := p.BodyOf(f)
	info := f.Info()
	type ins struct {
		call     *ast.CallExpr
		key, val string
	}
	got := map[string]ins{}
	ast.Inspect(f.Decl.Body, func(n ast.Node) bool {
		call, ok := n.(*ast.CallExpr)
		if !ok || calleeID(info, call) != iradixTxnInsert || len(call.Args) != 2 {
			return true
		}
		sel := ast.Unparen(call.Fun).(*ast.SelectorExpr)
		tbl := describeExprAt(f, sel.X)
		got[tbl] = ins{call, describeExprAt(f, call.Args[0]), describeExprAt(f, call.Args[1])}
		c.check(guardedUpdateFails(b, call), "tables.update-fails", f.ID+":"+tbl, p.Pos(call.Pos()),
			"an update of an existing key in "+tbl+" makes the function return a non-nil error",
			"the `updated` result of the insert into "+tbl+" no longer makes the function fail: two entries with the same key (same inode, or same name in one directory) silently replace one another")
		return true
	})
	want := func(rule, tbl, wantKey, why string) {
		g, ok := got[tbl]
		if !ok {
			c.fail(rule, f.ID, p.Pos(f.Decl.Pos()), "no insert into "+tbl+" in "+f.ID+": "+why)
			return
		}
		c.check(g.key == wantKey && g.val == "param#2", rule, f.ID, p.Pos(g.call.Pos()),
			tbl+"["+g.key+"] = "+g.val,
			tbl+" is filled with key `"+g.key+"` and value `"+g.val+"` instead of key `"+wantKey+"` and the entry parameter: "+why)
	}
	want("tables.fsEntryStore", "param#0.fsEntryStore", "call:pkg/fuse.formKey(param#2.iNode)",
		"GetInodeAttributes / OpenDir / ReadFile resolve an inode through formKey(inode); another key or value makes them answer for another entry")
	want("tables.lookupTree", "param#0.lookupTree", "call:pkg/fuse.formLookupKey(param#1,call:path.Base(param#2.fullPath))",
		"LookUpInode resolves (parent inode, child name); another key makes the child unreachable or reachable under a wrong name")
	if isDir {
		want("tables.dirStore", "param#0.dirStore", "conv:[]byte(param#2.fullPath)",
			"WithNodesFromEntry finds already created parents by their full path")
	}
	// the directory entry
	lits := compositeLits(f, direntTypeID)
	if len(lits) != 1 {
		c.fail("tables.dirent", f.ID, p.Pos(f.Decl.Pos()), "expected exactly one fuseutil.Dirent literal in "+f.ID+", found "+itoa(len(lits)))
		return
	}
	cl := lits[0]
	wantFields := map[string]string{
		"Offset": "conv:fuseops.DirOffset((call:builtin.len(recv.readDirMap[param#1])+const:1))",
		"Inode":  "param#2.iNode",
		"Name":   "call:path.Base(param#2.fullPath)",
		"Type":   wantType,
	}
	for _, fld := range []string{"Offset", "Inode", "Name", "Type"} {
		v := fieldOfCompositeLit(cl, fld)
		if v == nil {
			c.fail("tables.dirent", f.ID+":Dirent."+fld, p.Pos(cl.Pos()), "Dirent."+fld+" is not set")
			continue
		}
		g := describeExprAt(f, v)
		c.check(g == wantFields[fld], "tables.dirent", f.ID+":Dirent."+fld, p.Pos(v.Pos()), fld+" <- "+g,
			"Dirent."+fld+" is `"+g+"`, expected `"+wantFields[fld]+"`: ReadDir resumes a listing at the Offset of the last entry returned, which must be the index of the next child, and lists children by inode and base name")
	}
	// appended to and stored back into readDirMap[parent]
	stored := false
	ast.Inspect(f.Decl.Body, func(n ast.Node) bool {
		as, ok := n.(*ast.AssignStmt)
		if !ok || len(as.Lhs) != 1 || len(as.Rhs) != 1 {
			return true
		}
		if _, isIndex := ast.Unparen(as.Lhs[0]).(*ast.IndexExpr); isIndex && describeExprAt(f, as.Lhs[0]) == "recv.readDirMap[param#1]" &&
			describeExprAt(f, as.Rhs[0]) == "call:builtin.append(recv.readDirMap[param#1],lit:"+direntTypeID+")" {
			stored = true
		}
		return true
	})
	c.check(stored, "tables.readDirMap", f.ID, p.Pos(cl.Pos()),
		"the Dirent is appended to readDirMap[parent] and stored back",
		"the Dirent is not appended to and stored back into readDirMap[parent inode]: the child is missing from its parent's listing")
}

// zeroTestEdge: for condition cond over variable v compared with constant 0, which successor (0 true, 1 false)
// is the "v == 0" edge; -1 if cond is not such a test.
func zeroTestEdge(info *types.Info, cond ast.Expr, v *types.Var) int {
	if u, ok := ast.Unparen(cond).(*ast.UnaryExpr); ok && u.Op == token.NOT {
		switch zeroTestEdge(info, u.X, v) {
		case 0:
			return 1
		case 1:
			return 0
		}
		return -1
	}
	be, ok := ast.Unparen(cond).(*ast.BinaryExpr)
	if !ok {
		return -1
	}
	isZero := func(e ast.Expr) bool {
		tv, ok := info.Types[e]
		return ok && tv.Value != nil && tv.Value.Kind() == constant.Int && constant.Sign(tv.Value) == 0
	}
	isOne := func(e ast.Expr) bool {
		tv, ok := info.Types[e]
		return ok && tv.Value != nil && tv.Value.ExactString() == "1"
	}
	x, y, op := be.X, be.Y, be.Op
	if isVar(info, y, v) {
		// mirror
		x, y = y, x
		switch op {
		case token.LSS:
			op = token.GTR
		case token.GTR:
			op = token.LSS
		case token.LEQ:
			op = token.GEQ
		case token.GEQ:
			op = token.LEQ
		}
	}
	if !isVar(info, x, v) {
		return -1
	}
	switch {
	case op == token.EQL && isZero(y), op == token.LEQ && isZero(y), op == token.LSS && isOne(y):
		return 0
	case op == token.NEQ && isZero(y), op == token.GTR && isZero(y), op == token.GEQ && isOne(y):
		return 1
	}
	return -1
}

func checkROReadDir(c *Ctx) {
	f := c.P.Func("pkg/fuse.readOnlyFsInternal.ReadDir")
	checkDirentWriteFlow(c, f, func(b *Body, w *ast.CallExpr) { checkReadDirResume(c, f, b, w) })
}

// checkDirentWriteFlow: the buffer protocol of a ReadDir implementation (shared by both mounts).
func checkDirentWriteFlow(c *Ctx, f *FuncInfo, resume func(b *Body, w *ast.CallExpr)) {
	p := c.P
	b := p.BodyOf(f)
	info := f.Info()
	writes := b.findCalls(callTo(writeDirentID), false)
	if len(writes) == 0 {
		c.fail("readdir.no-write-after-full", f.ID, p.Pos(f.Decl.Pos()), "ReadDir no longer writes entries with fuseutil.WriteDirent: the clause cannot be established")
		return
	}
	// the variable bound to WriteDirent's result
	var nVar *types.Var
	for _, w := range writes {
		if as, ok := b.parent[w].(*ast.AssignStmt); ok && len(as.Lhs) == 1 {
			if id, ok := as.Lhs[0].(*ast.Ident); ok {
				if v, ok := info.Defs[id].(*types.Var); ok {
					nVar = v
				} else if v, ok := info.Uses[id].(*types.Var); ok {
					nVar = v
				}
			}
		}
	}
	if nVar == nil {
		c.fail("readdir.no-write-after-full", f.ID, p.Pos(writes[0].Pos()), "the result of WriteDirent is not bound to a variable: a full buffer cannot be detected")
		return
	}
	// dataflow: bit0 buffer-has-room / bit1 buffer-full ; bit2 last write accounted / bit3 pending
	const room, full, accounted, pending = 1, 2, 4, 8
	var badFull, badPending []ast.Node
	nZeroTests := 0
	isAccount := func(n ast.Node) bool {
		as, ok := n.(*ast.AssignStmt)
		if !ok || len(as.Lhs) != 1 || len(as.Rhs) != 1 {
			return false
		}
		if describeExprAt(f, as.Lhs[0]) != "param#1.BytesRead" {
			return false
		}
		if as.Tok == token.ADD_ASSIGN {
			return isVar(info, as.Rhs[0], nVar)
		}
		if as.Tok == token.ASSIGN {
			if be, ok := ast.Unparen(as.Rhs[0]).(*ast.BinaryExpr); ok && be.Op == token.ADD {
				return (isVar(info, be.X, nVar) && describeExprAt(f, be.Y) == "param#1.BytesRead") ||
					(isVar(info, be.Y, nVar) && describeExprAt(f, be.X) == "param#1.BytesRead")
			}
		}
		return false
	}
	b.run(flowSpec{
		entry: room | accounted,
		node: func(n ast.Node, s uint64) uint64 {
			for _, call := range callsIn(n) {
				if calleeID(info, call) != writeDirentID {
					continue
				}
				if s&full != 0 {
					badFull = append(badFull, call)
				}
				if s&pending != 0 {
					badPending = append(badPending, call)
				}
				s = room | pending
			}
			if isAccount(n) {
				s = (s &^ pending) | accounted
			}
			return s
		},
		edge: func(blk *cfg.Block, i int, s uint64) uint64 {
			cond := condOf(blk)
			if cond == nil {
				return s
			}
			e := zeroTestEdge(info, cond, nVar)
			if e < 0 {
				return s
			}
			nZeroTests++
			if i == e {
				// n == 0: nothing was written, the buffer is full
				return full | accounted
			}
			return s&^full | room
		},
	})
	if nZeroTests == 0 {
		c.fail("readdir.no-write-after-full", f.ID, p.Pos(writes[0].Pos()), "the result of WriteDirent is never compared with 0: an entry that does not fit is not detected, the listing goes on after it and the kernel never sees the skipped child")
	}
	c.check(len(badFull) == 0, "readdir.no-write-after-full", f.ID, p.Pos(writes[0].Pos()),
		"after a WriteDirent that returned 0 no further WriteDirent is reachable ("+itoa(len(writes))+" write site)",
		"a WriteDirent is reachable after one that returned 0 (entry did not fit): a later, shorter entry is written after the gap, the kernel resumes after that entry's offset and the skipped child is never listed")
	c.check(len(badPending) == 0, "readdir.bytes-accounted", f.ID, p.Pos(writes[0].Pos()),
		"every non-zero WriteDirent result is added to op.BytesRead before the next write",
		"a WriteDirent is reachable while the previous result has not been added to op.BytesRead: the next entry overwrites the previous one")
	for _, w := range writes {
		if len(w.Args) != 2 {
			continue
		}
		dst := describeExprAt(f, w.Args[0])
		c.check(dst == "param#1.Dst[param#1.BytesRead:]", "readdir.destination", callKey(f, w), p.Pos(w.Pos()),
			"entries are written at op.Dst[op.BytesRead:]",
			"entries are written at `"+dst+"` instead of op.Dst[op.BytesRead:]")
		// the entry written: which child, in which order
		resume(b, w)
	}
}

// checkReadDirResume: the child handed to WriteDirent is children[i] of a loop `for i := int(op.Offset); i < len(children); i++`
// or the value variable of `range children[int(op.Offset):]` (dominated by the bound guard), with children = readDirMap[op.Inode].
func checkReadDirResume(c *Ctx, f *FuncInfo, b *Body, w *ast.CallExpr) {
	p := c.P
	info := f.Info()
	const wantChildren = "recv.readDirMap[param#1.Inode]#0"
	const wantOffset = "conv:int(param#1.Offset)"
	key := callKey(f, w)
	arg := ast.Unparen(w.Args[1])
	fail := func(msg string) {
		c.fail("readdir.resume-index", key, p.Pos(w.Pos()), msg+": a listing resumed at the offset of the last returned entry (its position + 1) must continue with exactly the next child")
	}
	switch x := arg.(type) {
	case *ast.IndexExpr:
		if describeExprAt(f, x.X) != wantChildren {
			fail("the entry written is indexed from `" + describeExprAt(f, x.X) + "`, not from readDirMap[op.Inode]")
			return
		}
		id, ok := ast.Unparen(x.Index).(*ast.Ident)
		if !ok {
			fail("the index of the entry written is not a loop variable")
			return
		}
		iv, _ := info.Uses[id].(*types.Var)
		// enclosing for statement defining iv
		var loop *ast.ForStmt
		for n := b.parent[w]; n != nil; n = b.parent[n] {
			if fs, ok := n.(*ast.ForStmt); ok {
				loop = fs
				break
			}
		}
		if loop == nil || loop.Init == nil || loop.Post == nil || loop.Cond == nil {
			fail("the entry written is children[i] outside a three-clause for loop")
			return
		}
		init, ok := loop.Init.(*ast.AssignStmt)
		if !ok || len(init.Lhs) != 1 || info.Defs[init.Lhs[0].(*ast.Ident)] != iv {
			fail("the loop does not define the index variable")
			return
		}
		start := describeExprAt(f, init.Rhs[0])
		post, ok := loop.Post.(*ast.IncDecStmt)
		okPost := ok && post.Tok == token.INC && isVar(info, post.X, iv)
		cond, ok := ast.Unparen(loop.Cond).(*ast.BinaryExpr)
		okCond := ok && cond.Op == token.LSS && isVar(info, cond.X, iv) && describeExprAt(f, cond.Y) == "call:builtin.len("+wantChildren+")"
		// the index variable is not modified in the body
		modified := false
		ast.Inspect(loop.Body, func(n ast.Node) bool {
			switch s := n.(type) {
			case *ast.AssignStmt:
				for _, l := range s.Lhs {
					if isVar(info, l, iv) {
						modified = true
					}
				}
			case *ast.IncDecStmt:
				if isVar(info, s.X, iv) {
					modified = true
				}
			}
			return true
		})
		c.check(start == wantOffset && okPost && okCond && !modified, "readdir.resume-index", key, p.Pos(loop.Pos()),
			"children[i] for i := int(op.Offset); i < len(children); i++",
			"the listing loop is `for "+exprString(init.Lhs[0])+" := "+start+"; "+exprString(loop.Cond)+"; …` (index modified in body: "+boolStr(modified)+"), expected to start at int(op.Offset), step by one and stop at len(children): a listing resumed at the offset of the last returned entry (its position + 1) must continue with exactly the next child")
	case *ast.Ident:
		// range variable over children[offset:]
		v, _ := info.Uses[x].(*types.Var)
		var rng *ast.RangeStmt
		for n := b.parent[w]; n != nil; n = b.parent[n] {
			if rs, ok := n.(*ast.RangeStmt); ok {
				if vid, ok := rs.Value.(*ast.Ident); ok && info.Defs[vid] == v {
					rng = rs
					break
				}
			}
		}
		if rng == nil {
			fail("the entry written is not an element of the children list")
			return
		}
		se, ok := ast.Unparen(rng.X).(*ast.SliceExpr)
		if !ok || se.High != nil || se.Low == nil {
			fail("the listing ranges over `" + exprString(rng.X) + "`, not over children[int(op.Offset):]")
			return
		}
		okShape := describeExprAt(f, se.X) == wantChildren && describeExprAt(f, se.Low) == wantOffset
		// the slice must be dominated by the guard `offset > len(children)` -> return
		guarded := false
		ast.Inspect(f.Decl.Body, func(n ast.Node) bool {
			ifs, ok := n.(*ast.IfStmt)
			if !ok || ifs.Pos() > rng.Pos() {
				return true
			}
			be, ok := ast.Unparen(ifs.Cond).(*ast.BinaryExpr)
			if !ok {
				return true
			}
			l, r := describeExprAt(f, be.X), describeExprAt(f, be.Y)
			lenC := "call:builtin.len(" + wantChildren + ")"
			if ((be.Op == token.GTR || be.Op == token.GEQ) && l == wantOffset && r == lenC) || ((be.Op == token.LSS || be.Op == token.LEQ) && l == lenC && r == wantOffset) {
				if len(ifs.Body.List) > 0 {
					if _, ok := ifs.Body.List[len(ifs.Body.List)-1].(*ast.ReturnStmt); ok {
						guarded = true
					}
				}
			}
			return true
		})
		c.check(okShape && guarded, "readdir.resume-index", key, p.Pos(rng.Pos()),
			"range over children[int(op.Offset):], guarded by offset > len(children)",
			"the listing ranges over `"+describeExprAt(f, rng.X)+"` (bound guard present: "+boolStr(guarded)+"), expected children[int(op.Offset):] after an `offset > len(children)` return: a listing resumed at the offset of the last returned entry (its position + 1) must continue with exactly the next child, and an offset beyond the list must not panic")
	default:
		fail("the entry written is `" + describeExprAt(f, arg) + "`, not an element of readDirMap[op.Inode]")
	}
}

func boolStr(b bool) string {
	if b {
		return "yes"
	}
	return "no"
}

// checkPopulate: inode counter and parent linking in the populate pipeline.
func checkPopulate(c *Ctx, rootID constant.Value) {
	p := c.P
	// --- inode counter ---
	add := p.Func("pkg/fuse.populateFSAddBundleEntries")
	info := add.Info()
	first, ok := repoConst(p, "pkg/fuse", "firstINode")
	if !ok {
		undecided("constant pkg/fuse.firstINode not found")
	}
	c.check(constant.Compare(first, token.GTR, rootID), "populate.inode-counter", "pkg/fuse.firstINode>RootInodeID", p.Pos(add.Decl.Pos()),
		"firstINode ("+first.ExactString()+") > RootInodeID ("+rootID.ExactString()+"): generated inodes never collide with the root",
		"firstINode ("+first.ExactString()+") is not above RootInodeID ("+rootID.ExactString()+"): a generated inode collides with the root directory")
	// the variable whose address goes to WithINode
	var ctrVar *types.Var
	var ctrCall *ast.CallExpr
	var loop ast.Node
	ab := p.BodyOf(add)
	for _, call := range ab.findCalls(callTo("pkg/fuse.populate.WithINode"), true) {
		if len(call.Args) == 1 {
			if u, ok := ast.Unparen(call.Args[0]).(*ast.UnaryExpr); ok && u.Op == token.AND {
				if id, ok := ast.Unparen(u.X).(*ast.Ident); ok {
					ctrVar, _ = info.Uses[id].(*types.Var)
					ctrCall = call
				}
			}
		}
		for n := ab.parent[call]; n != nil; n = ab.parent[n] {
			switch n.(type) {
			case *ast.RangeStmt, *ast.ForStmt:
				if loop == nil {
					loop = n
				}
			}
		}
	}
	if ctrVar == nil || loop == nil {
		c.fail("populate.inode-counter", add.ID, p.Pos(add.Decl.Pos()), "populateFSAddBundleEntries no longer hands the address of a local counter to WithINode inside a loop over the bundle entries: the uniqueness of inode numbers cannot be established")
	} else {
		// its declaration is outside the loop, initialised to firstINode, and nothing else in the function assigns it
		declOutside, initOK, reassigned := false, false, false
		ast.Inspect(add.Decl.Body, func(n ast.Node) bool {
			switch s := n.(type) {
			case *ast.AssignStmt:
				for i, l := range s.Lhs {
					id, ok := l.(*ast.Ident)
					if !ok {
						continue
					}
					if info.Defs[id] == ctrVar {
						declOutside = !(s.Pos() >= loop.Pos() && s.End() <= loop.End())
						if i < len(s.Rhs) {
							if tv, ok := info.Types[s.Rhs[i]]; ok && tv.Value != nil && constant.Compare(tv.Value, token.EQL, first) {
								initOK = true
							}
						}
					} else if info.Uses[id] == ctrVar {
						reassigned = true
					}
				}
			case *ast.ValueSpec:
				for i, id := range s.Names {
					if info.Defs[id] == ctrVar {
						declOutside = !(s.Pos() >= loop.Pos() && s.End() <= loop.End())
						if i < len(s.Values) {
							if tv, ok := info.Types[s.Values[i]]; ok && tv.Value != nil && constant.Compare(tv.Value, token.EQL, first) {
								initOK = true
							}
						}
					}
				}
			}
			return true
		})
		c.check(declOutside && initOK && !reassigned, "populate.inode-counter", add.ID+":counter", p.Pos(ctrCall.Pos()),
			"one counter, declared outside the loop over bundle entries, initialised to firstINode and only advanced through the pointer given to WithINode",
			"the inode counter handed to WithINode is declared inside the loop over bundle entries, not initialised to firstINode, or reassigned (outside: "+boolStr(declOutside)+", init firstINode: "+boolStr(initOK)+", reassigned: "+boolStr(reassigned)+"): two bundle entries can receive the same inode number")
		// the queue is emptied between entries (or freshly allocated)
		reset := false
		ast.Inspect(loop, func(n ast.Node) bool {
			if as, ok := n.(*ast.AssignStmt); ok && len(as.Lhs) == 1 && len(as.Rhs) == 1 {
				l, r := describeExprAt(add, as.Lhs[0]), describeExprAt(add, as.Rhs[0])
				if l == "param#0.nodesToAdd" && (r == "param#0.nodesToAdd[:const:0]" || r == "nil" || strings.HasPrefix(r, "lit:[]")) {
					reset = true
				}
			}
			return true
		})
		c.check(reset, "populate.queue-reset", add.ID, p.Pos(loop.Pos()),
			"the queue of nodes to add is emptied after each bundle entry",
			"the queue of nodes to add is not emptied between bundle entries: nodes of the previous entry are inserted again (ErrUnexpectedUpdate) or linked to the wrong parent")
	}
	// --- WithNodesFromEntry: inode draws and parent links ---
	w := p.Func("pkg/fuse.populate.WithNodesFromEntry")
	winfo := w.Info()
	// the incrementing closure
	var nextVar *types.Var
	ast.Inspect(w.Decl.Body, func(n ast.Node) bool {
		as, ok := n.(*ast.AssignStmt)
		if !ok || len(as.Lhs) != 1 || len(as.Rhs) != 1 {
			return true
		}
		lit, ok := as.Rhs[0].(*ast.FuncLit)
		if !ok || len(lit.Body.List) != 2 || lit.Type.Params == nil || len(lit.Type.Params.List) != 1 || len(lit.Type.Params.List[0].Names) != 1 {
			return true
		}
		pv := winfo.Defs[lit.Type.Params.List[0].Names[0]]
		inc, ok1 := lit.Body.List[0].(*ast.IncDecStmt)
		ret, ok2 := lit.Body.List[1].(*ast.ReturnStmt)
		if !ok1 || !ok2 || inc.Tok != token.INC || len(ret.Results) != 1 {
			return true
		}
		st1, ok1 := ast.Unparen(inc.X).(*ast.StarExpr)
		st2, ok2 := ast.Unparen(ret.Results[0]).(*ast.StarExpr)
		if ok1 && ok2 && usesObj(winfo, st1.X, pv) && usesObj(winfo, st2.X, pv) {
			if id, ok := as.Lhs[0].(*ast.Ident); ok {
				nextVar, _ = winfo.Defs[id].(*types.Var)
			}
		}
		return true
	})
	if nextVar == nil {
		c.fail("populate.inode-draw", w.ID, p.Pos(w.Decl.Pos()), "WithNodesFromEntry no longer defines the closure that increments the shared counter and returns its new value: the uniqueness of inode numbers cannot be established")
	}
	for _, call := range p.BodyOf(w).findCalls(callTo("pkg/fuse.newFsEntry"), false) {
		okDraw := false
		if nextVar != nil && len(call.Args) == 4 {
			if dc, ok := ast.Unparen(call.Args[2]).(*ast.CallExpr); ok && len(dc.Args) == 1 {
				if id, ok := ast.Unparen(dc.Fun).(*ast.Ident); ok && winfo.Uses[id] == nextVar && describeExprAt(w, dc.Args[0]) == "recv.iNode" {
					okDraw = true
				}
			}
		}
		c.check(okDraw, "populate.inode-draw", callKey(w, call), p.Pos(call.Pos()),
			"the entry's inode is drawn from the incrementing closure on the shared counter",
			"an FsEntry is created with inode `"+describeExprAt(w, call.Args[2])+"`, not with a fresh draw from the shared counter: two entries can share an inode")
	}
	c.requireInstances("populate.inode-draw", 2)
	checkParentLinks(c, w, rootID)
	// populateFSAddNodes: inserter chosen on the directory link count
	an := p.Func("pkg/fuse.populateFSAddNodes")
	dirLC, _ := repoConst(p, "pkg/fuse", "dirLinkCount")
	fileLC, _ := repoConst(p, "pkg/fuse", "fileLinkCount")
	okDisc := false
	// an index loop over the queue binds the same elements as the range loop
	describeIndexAsRange = true
	defer func() { describeIndexAsRange = false }()
	ast.Inspect(an.Decl.Body, func(n ast.Node) bool {
		ifs, ok := n.(*ast.IfStmt)
		if !ok || ifs.Else == nil {
			return true
		}
		be, ok := ast.Unparen(ifs.Cond).(*ast.BinaryExpr)
		if !ok || be.Op != token.EQL {
			return true
		}
		l, r := describeExprAt(an, be.X), describeExprAt(an, be.Y)
		if l == "range(param#0.nodesToAdd).FsEntry.attributes.Nlink" && dirLC != nil && r == constDesc(dirLC) {
			thenDir := len(p.bodyCallsIn(an, ifs.Body, "pkg/fuse.readOnlyFsInternal.insertDirEntry")) == 1
			elseFile := len(p.bodyCallsIn(an, ifs.Else, "pkg/fuse.readOnlyFsInternal.insertFsEntry")) == 1
			okDisc = thenDir && elseFile
		}
		return true
	})
	c.check(okDisc && dirLC != nil && fileLC != nil && !constant.Compare(dirLC, token.EQL, fileLC), "populate.inserter-choice", an.ID, p.Pos(an.Decl.Pos()),
		"nodes with the directory link count go to insertDirEntry, all others to insertFsEntry; the two link counts differ",
		"populateFSAddNodes no longer sends exactly the nodes with the directory link count to insertDirEntry and the others to insertFsEntry (or the two link counts are equal): directories are registered as files or files as directories")
	for _, call := range append(p.BodyOf(an).findCalls(callTo("pkg/fuse.readOnlyFsInternal.insertDirEntry"), false), p.BodyOf(an).findCalls(callTo("pkg/fuse.readOnlyFsInternal.insertFsEntry"), false)...) {
		okArgs := len(call.Args) == 3 && describeExprAt(an, call.Args[1]) == "range(param#0.nodesToAdd).parentINode" && describeExprAt(an, call.Args[2]) == "range(param#0.nodesToAdd).FsEntry"
		c.check(okArgs, "populate.inserter-args", callKey(an, call), p.Pos(call.Pos()),
			"the node's own parent inode and entry are passed to the inserter",
			"the inserter is not called with the queued node's own parentINode and FsEntry")
	}
	c.requireInstances("populate.inserter-args", 2)
}

// bodyCallsIn lists calls to callee id within a statement subtree.
func (p *Prog) bodyCallsIn(f *FuncInfo, n ast.Node, id string) []*ast.CallExpr {
	var out []*ast.CallExpr
	ast.Inspect(n, func(m ast.Node) bool {
		if c, ok := m.(*ast.CallExpr); ok && calleeID(f.Info(), c) == id {
			out = append(out, c)
		}
		return true
	})
	return out
}

// checkParentLinks: 4-state dataflow over the queue of WithNodesFromEntry.
// State = (prev patched?, last patched?) for the two most recently queued nodes; all older nodes must already be
// patched when a new node is queued, because only positions len-1 and len-2 are ever written.
func checkParentLinks(c *Ctx, w *FuncInfo, rootID constant.Value) {
	p := c.P
	b := p.BodyOf(w)
	info := w.Info()
	const queue = "recv.nodesToAdd"
	lenQ := "call:builtin.len(" + queue + ")"
	// encode (prev,last) with P=1,U=0 as bit index prev*2+last
	// states with bit 4 set: at least one node has been queued on this path (so `len(queue) >= 1` cannot be false)
	st := func(prev, last int) uint64 { return 1<<uint(prev*2+last) | 1<<uint(4+prev*2+last) }
	const queuedMask = uint64(0xf0)
	var problems []string
	var probPos []token.Pos
	report := func(n ast.Node, msg string) {
		for i, m := range problems {
			if m == msg && probPos[i] == n.Pos() {
				return
			}
		}
		problems = append(problems, msg)
		probPos = append(probPos, n.Pos())
	}
	nAppend, nPatch := 0, 0
	counted := map[ast.Node]bool{}
	unknownShape := false
	classify := func(n ast.Node) (kind string, ok bool) {
		as, isAs := n.(*ast.AssignStmt)
		if !isAs || len(as.Lhs) != 1 || len(as.Rhs) != 1 {
			return "", false
		}
		l := describeExprAt(w, as.Lhs[0])
		if l == queue {
			call, ok := ast.Unparen(as.Rhs[0]).(*ast.CallExpr)
			if !ok || calleeID(info, call) != "builtin.append" || len(call.Args) != 2 || describeExprAt(w, call.Args[0]) != queue {
				unknownShape = true
				return "", false
			}
			cl, ok := ast.Unparen(call.Args[1]).(*ast.CompositeLit)
			if !ok {
				unknownShape = true
				return "", false
			}
			pv := fieldOfCompositeLit(cl, "parentINode")
			if pv == nil {
				return "append-undefined", true
			}
			if tv, ok := info.Types[pv]; ok && tv.Value != nil {
				if constant.Compare(tv.Value, token.EQL, rootID) {
					return "append-root", true
				}
				return "append-undefined", true
			}
			unknownShape = true
			return "", false
		}
		if strings.HasSuffix(l, ".parentINode") {
			r := describeExprAt(w, as.Rhs[0])
			switch l {
			case queue + "[(" + lenQ + "-const:2)].parentINode":
				if r == queue+"[("+lenQ+"-const:1)].FsEntry.iNode" {
					return "patch-prev", true
				}
				report(n, "the node before the last is given parent `"+r+"`, not the inode of the node queued after it (its parent directory)")
				return "patch-prev", true
			case queue + "[(" + lenQ + "-const:1)].parentINode":
				if strings.HasPrefix(r, "call:pkg/fuse.asFsEntry("+"recv.txns.dirStore.Get(") && strings.HasSuffix(r, ").iNode") {
					return "patch-last", true
				}
				report(n, "the last queued node is given parent `"+r+"`, not the inode of the directory found in dirStore")
				return "patch-last", true
			}
			unknownShape = true
		}
		return "", false
	}
	b.run(flowSpec{
		entry: st(1, 1) &^ queuedMask,
		node: func(n ast.Node, s uint64) uint64 {
			kind, ok := classify(n)
			if !ok {
				return s
			}
			if !counted[n] {
				counted[n] = true
				if strings.HasPrefix(kind, "append") {
					nAppend++
				} else {
					nPatch++
				}
			}
			var out uint64
			for prev := 0; prev <= 1; prev++ {
				for last := 0; last <= 1; last++ {
					cur := s & st(prev, last)
					if cur == 0 {
						continue
					}
					// keep the queued/not-queued flavour of the state
					flavour := func(x uint64) uint64 {
						var r uint64
						if cur&^queuedMask != 0 {
							r |= x &^ queuedMask
						}
						if cur&queuedMask != 0 {
							r |= x & queuedMask
						}
						return r
					}
					switch kind {
					case "append-undefined", "append-root":
						if prev == 0 {
							report(n, "a node is queued while the node two positions back still has no parent inode: only the last two positions are ever patched, so it keeps parent inode 0")
						}
						nl := 0
						if kind == "append-root" {
							nl = 1
						}
						out |= st(last, nl) & queuedMask
					case "patch-prev":
						out |= flavour(st(1, last))
					case "patch-last":
						out |= flavour(st(prev, 1))
					}
				}
			}
			return out
		},
		edge: func(blk *cfg.Block, i int, s uint64) uint64 {
			// `len(queue) > 1` false edge: there is no previous node
			cond := condOf(blk)
			if cond == nil {
				return s
			}
			be, ok := ast.Unparen(cond).(*ast.BinaryExpr)
			if !ok || describeExprAt(w, be.X) != lenQ {
				return s
			}
			tv, ok := info.Types[be.Y]
			if !ok || tv.Value == nil {
				return s
			}
			zero := tv.Value.ExactString() == "0"
			one := tv.Value.ExactString() == "1"
			two := tv.Value.ExactString() == "2"
			// `len(queue) >= 1` is true wherever a node has been queued on the path
			emptyEdge := -1
			switch {
			case be.Op == token.GEQ && one, be.Op == token.GTR && zero, be.Op == token.NEQ && zero:
				emptyEdge = 1
			case be.Op == token.LSS && one, be.Op == token.LEQ && zero, be.Op == token.EQL && zero:
				emptyEdge = 0
			}
			if i == emptyEdge {
				return s &^ queuedMask
			}
			noPrevEdge := -1
			switch {
			case be.Op == token.GTR && one, be.Op == token.GEQ && two:
				noPrevEdge = 1
			case be.Op == token.LEQ && one, be.Op == token.LSS && two:
				noPrevEdge = 0
			}
			if i == noPrevEdge {
				var out uint64
				for last := 0; last <= 1; last++ {
					for _, m := range []uint64{queuedMask, ^queuedMask} {
						if s&(st(0, last)|st(1, last))&m != 0 {
							out |= st(1, last) & m
						}
					}
				}
				return out
			}
			return s
		},
		exit: func(blk *cfg.Block, ret *ast.ReturnStmt, s uint64) {
			var at ast.Node = b.Block
			if ret != nil {
				at = ret
			}
			if s&(st(0, 0)|st(0, 1)) != 0 {
				report(at, "WithNodesFromEntry can return while the node before the last queued one has no parent inode")
			}
			if s&(st(0, 0)|st(1, 0)) != 0 {
				report(at, "WithNodesFromEntry can return while the last queued node has no parent inode (neither the root constant nor the directory found in dirStore)")
			}
		},
	})
	if unknownShape || nAppend == 0 {
		c.softUndecided("populate.parent-links: pkg/fuse.populate.WithNodesFromEntry no longer queues nodes with `p.nodesToAdd = append(p.nodesToAdd, fsNodeToAdd{…})` and patches `p.nodesToAdd[len-1|len-2].parentINode`: the parent-link dataflow cannot be applied to the new shape")
		return
	}
	if len(problems) == 0 {
		c.ok("populate.parent-links", w.ID, p.Pos(w.Decl.Pos()), "every node queued with an undefined parent ("+itoa(nAppend)+" append sites, "+itoa(nPatch)+" patch sites) has its parent inode set before the function returns, on every path")
		return
	}
	for i, m := range problems {
		c.fail("populate.parent-links", w.ID, p.Pos(probPos[i]), m+": the node and everything below it is registered under inode 0, missing from its parent's listing and from lookups")
	}
}

// checkNoStaleElementPointer: v := &X[i] (X a slice) must not be used after `X = append(X, …)` is reachable from the
// definition: the append may reallocate, and writes through v then land in the old array.
func checkNoStaleElementPointer(c *Ctx, rule string, f *FuncInfo) int {
	p := c.P
	info := f.Info()
	type ptrDef struct {
		v     *types.Var
		slice string
		at    ast.Node
	}
	var defs []ptrDef
	ast.Inspect(f.Decl.Body, func(n ast.Node) bool {
		as, ok := n.(*ast.AssignStmt)
		if !ok {
			return true
		}
		for i, r := range as.Rhs {
			u, ok := ast.Unparen(r).(*ast.UnaryExpr)
			if !ok || u.Op != token.AND || i >= len(as.Lhs) {
				continue
			}
			ix, ok := ast.Unparen(u.X).(*ast.IndexExpr)
			if !ok {
				continue
			}
			if _, isSlice := info.TypeOf(ix.X).Underlying().(*types.Slice); !isSlice {
				continue
			}
			id, ok := as.Lhs[i].(*ast.Ident)
			if !ok {
				continue
			}
			v, _ := info.Defs[id].(*types.Var)
			if v == nil {
				v, _ = info.Uses[id].(*types.Var)
			}
			if v != nil {
				defs = append(defs, ptrDef{v, describeExpr(f, ix.X, 0), as})
			}
		}
		return true
	})
	if len(defs) == 0 {
		return 0
	}
	b := p.BodyOf(f)
	for _, d := range defs {
		// states: 1 no pointer / 2 pointer fresh / 4 pointer possibly stale
		const none, fresh, stale = 1, 2, 4
		var bad ast.Node
		uses := func(n ast.Node) bool {
			found := false
			ast.Inspect(n, func(m ast.Node) bool {
				if _, isLit := m.(*ast.FuncLit); isLit {
					// a closure capturing the pointer may run later: count as a use at this point
				}
				if id, ok := m.(*ast.Ident); ok && info.Uses[id] == d.v {
					found = true
				}
				return !found
			})
			return found
		}
		isAppend := func(n ast.Node) bool {
			as, ok := n.(*ast.AssignStmt)
			if !ok {
				return false
			}
			for i, l := range as.Lhs {
				if i < len(as.Rhs) && describeExpr(f, l, 0) == d.slice {
					if call, ok := ast.Unparen(as.Rhs[i]).(*ast.CallExpr); ok && calleeID(info, call) == "builtin.append" {
						return true
					}
				}
			}
			return false
		}
		b.run(flowSpec{
			entry: none,
			node: func(n ast.Node, s uint64) uint64 {
				if n == d.at {
					return fresh
				}
				if s&stale != 0 && bad == nil && uses(n) {
					// a re-definition of the pointer is not a use of the stale value
					if as, ok := n.(*ast.AssignStmt); ok {
						for _, l := range as.Lhs {
							if isVar(info, l, d.v) {
								return s
							}
						}
					}
					bad = n
				}
				if isAppend(n) && s&(fresh|stale) != 0 {
					return (s &^ fresh) | stale
				}
				return s
			},
			exit: func(blk *cfg.Block, ret *ast.ReturnStmt, s uint64) {
				if s&stale != 0 && bad == nil {
					for _, df := range b.defers {
						if uses(df) {
							bad = df
						}
					}
				}
			},
		})
		if bad != nil {
			c.fail(rule, f.ID+":&"+d.slice, p.Pos(bad.Pos()), "a pointer to an element of "+d.slice+" (taken at "+p.Pos(d.at.Pos())+") is used after an append to that slice is reachable: when the append reallocates, the pointer refers to the old array and the write is lost")
		}
	}
	return len(defs)
}

func checkROPlumbing(c *Ctx, rootID constant.Value) {
	p := c.P
	// newFsEntry
	{
		f := p.Func("pkg/fuse.newFsEntry")
		lits := compositeLits(f, "pkg/fuse.FsEntry")
		if len(lits) != 1 {
			c.fail("plumbing.fsentry", f.ID, p.Pos(f.Decl.Pos()), "expected one FsEntry literal in newFsEntry")
		} else {
			checkLitFields(c, "plumbing.fsentry", f, lits[0], f.ID, map[string]string{
				"fullPath": "param#0.NameWithPath", "hash": "param#0.Hash", "iNode": "param#2",
			}, "the mounted entry must carry the bundle entry's path and hash and its own inode")
			if attrs, ok := ast.Unparen(fieldOfCompositeLit(lits[0], "attributes")).(*ast.CompositeLit); ok {
				checkLitFields(c, "plumbing.fsentry", f, attrs, f.ID+":attributes", map[string]string{
					"Size": "param#0.Size", "Nlink": "param#3",
				}, "file size and link count shown by the mount come from the bundle entry")
			} else {
				c.fail("plumbing.fsentry", f.ID+":attributes", p.Pos(lits[0].Pos()), "FsEntry.attributes is not built from a literal")
			}
		}
		// directory <=> empty hash, in isDir and in the mode choice
		isDir := p.Func("pkg/fuse.FsEntry.isDir")
		okIsDir := false
		if len(isDir.Decl.Body.List) == 1 {
			if ret, ok := isDir.Decl.Body.List[0].(*ast.ReturnStmt); ok && len(ret.Results) == 1 {
				okIsDir = describeExpr(isDir, ret.Results[0], 0) == "(recv.hash==const:\"\")"
			}
		}
		c.check(okIsDir, "plumbing.fsentry", "pkg/fuse.FsEntry.isDir", p.Pos(isDir.Decl.Pos()), "a directory is exactly an entry with an empty hash", "FsEntry.isDir is no longer `hash == \"\"`")
	}
	// newBundleEntry: implied directories have no hash and carry the path
	{
		f := p.Func("pkg/fuse.newBundleEntry")
		lits := compositeLits(f, "pkg/model.BundleEntry")
		if len(lits) == 1 {
			checkLitFields(c, "plumbing.fsentry", f, lits[0], f.ID, map[string]string{"Hash": "const:\"\"", "NameWithPath": "param#0"}, "implied directories are entries without hash under their own path")
		} else {
			c.fail("plumbing.fsentry", f.ID, p.Pos(f.Decl.Pos()), "expected one BundleEntry literal in newBundleEntry")
		}
	}
	// LookUpInode
	{
		f := p.Func("pkg/fuse.readOnlyFsInternal.LookUpInode")
		const entry = "call:pkg/fuse.asFsEntry(recv.lookupTree.Get(call:pkg/fuse.formLookupKey(param#1.Parent,param#1.Name))#0)"
		got := assignmentsOf(f)
		c.check(got["param#1.Entry.Child"] == entry+".iNode", "plumbing.lookup", f.ID+":Child", p.Pos(f.Decl.Pos()),
			"Entry.Child <- lookupTree[formLookupKey(op.Parent, op.Name)].iNode",
			"LookUpInode sets Entry.Child from `"+got["param#1.Entry.Child"]+"`, not from the lookupTree entry under formLookupKey(op.Parent, op.Name)")
		c.check(got["param#1.Entry.Attributes"] == entry+".attributes", "plumbing.lookup", f.ID+":Attributes", p.Pos(f.Decl.Pos()),
			"Entry.Attributes <- the same entry's attributes",
			"LookUpInode sets Entry.Attributes from `"+got["param#1.Entry.Attributes"]+"`, not from the entry found")
		checkNotFoundFails(c, "plumbing.lookup", f, "recv.lookupTree.Get(")
	}
	// GetInodeAttributes
	{
		f := p.Func("pkg/fuse.readOnlyFsInternal.GetInodeAttributes")
		got := assignmentsOf(f)
		const entry = "call:pkg/fuse.asFsEntry(recv.fsEntryStore.Get(call:pkg/fuse.formKey(param#1.Inode))#0)"
		c.check(got["param#1.Attributes"] == entry+".attributes", "plumbing.getattr", f.ID, p.Pos(f.Decl.Pos()),
			"op.Attributes <- fsEntryStore[formKey(op.Inode)].attributes",
			"GetInodeAttributes answers from `"+got["param#1.Attributes"]+"`, not from the fsEntryStore entry under formKey(op.Inode)")
		checkNotFoundFails(c, "plumbing.getattr", f, "recv.fsEntryStore.Get(")
	}
	// ReadFile
	{
		f := p.Func("pkg/fuse.readOnlyFsInternal.ReadFile")
		got := assignmentsOf(f)
		const call = "recv.readAtBundle(call:pkg/fuse.asFsEntry(recv.fsEntryStore.Get(call:pkg/fuse.formKey(param#1.Inode))#0),param#1.Dst,param#1.Offset)"
		c.check(got["param#1.BytesRead"] == call+"#0", "plumbing.read", f.ID, p.Pos(f.Decl.Pos()),
			"op.BytesRead <- readAtBundle(fsEntryStore[formKey(op.Inode)], op.Dst, op.Offset) count",
			"ReadFile sets op.BytesRead from `"+got["param#1.BytesRead"]+"`, expected the count of readAtBundle(entry of op.Inode, op.Dst, op.Offset)")
		checkNotFoundFails(c, "plumbing.read", f, "recv.fsEntryStore.Get(")
		// its error is returned
		b := p.BodyOf(f)
		rets := 0
		okRet := false
		ast.Inspect(f.Decl.Body, func(n ast.Node) bool {
			if _, isLit := n.(*ast.FuncLit); isLit {
				return false
			}
			if r, ok := n.(*ast.ReturnStmt); ok {
				rets++
				if len(r.Results) == 1 && strings.Contains(describeExprAt(f, r.Results[0]), call+"#1") {
					okRet = true
				}
			}
			return true
		})
		_ = b
		c.check(okRet, "plumbing.read", f.ID+":error", p.Pos(f.Decl.Pos()), "readAtBundle's error is returned to the kernel", "ReadFile no longer returns readAtBundle's error: a failed read is reported as success")
	}
	// readAtBundle
	{
		f := p.Func("pkg/fuse.readOnlyFsInternal.readAtBundle")
		b := p.BodyOf(f)
		info := f.Info()
		reads := b.findCalls(callTo("io.ReaderAt.ReadAt"), false)
		wantRecv := map[string]bool{
			"recv.bundle.ConsumableStore.GetAt(call:context.Background(),param#0.fullPath)#0":          true,
			"recv.cafs.GetAt(call:context.Background(),call:pkg/cafs.KeyFromString(param#0.hash)#0)#0": true,
		}
		seenRecv := map[string]bool{}
		for _, rd := range reads {
			sel := ast.Unparen(rd.Fun).(*ast.SelectorExpr)
			rv := describeExprAt(f, sel.X)
			okArgs := len(rd.Args) == 2 && describeExprAt(f, rd.Args[0]) == "param#1" && describeExprAt(f, rd.Args[1]) == "param#2"
			c.check(okArgs && wantRecv[rv], "plumbing.read", callKey(f, rd), p.Pos(rd.Pos()),
				"ReadAt(destination, offset) on "+rv,
				"readAtBundle reads with `"+describeExprAt(f, rd)+"`: expected ReadAt(destination, offset) unchanged on the staged file opened by the entry's fullPath or the cafs object opened by the entry's hash")
			seenRecv[rv] = true
			// the count returned on the success path is this ReadAt's count
			var nVar *types.Var
			if as, ok := b.parent[rd].(*ast.AssignStmt); ok && len(as.Lhs) == 2 {
				if id, ok := as.Lhs[0].(*ast.Ident); ok {
					nVar, _ = info.Defs[id].(*types.Var)
					if nVar == nil {
						nVar, _ = info.Uses[id].(*types.Var)
					}
				}
			}
			okCount := false
			if nVar != nil {
				ast.Inspect(f.Decl.Body, func(n ast.Node) bool {
					r, ok := n.(*ast.ReturnStmt)
					if !ok || r.Pos() < rd.Pos() || len(r.Results) != 2 {
						return true
					}
					if isNil(info, r.Results[1]) && isVar(info, r.Results[0], nVar) {
						okCount = true
					}
					return true
				})
			}
			c.check(okCount, "plumbing.read", callKey(f, rd)+":count", p.Pos(rd.Pos()),
				"the success return carries ReadAt's count", "no success return of readAtBundle carries the count of this ReadAt: the kernel is told a wrong number of bytes")
		}
		c.check(len(seenRecv) == 2, "plumbing.read", f.ID+":modes", p.Pos(f.Decl.Pos()),
			"both mount modes read through ReadAt: staged file by path, cafs object by hash",
			"readAtBundle no longer has one ReadAt per mount mode (staged file by fullPath, cafs object by hash)")
		// EOF is not an error: errNotEOF
		en := p.Func("pkg/fuse.errNotEOF")
		okE := false
		if len(en.Decl.Body.List) == 1 {
			if r, ok := en.Decl.Body.List[0].(*ast.ReturnStmt); ok && len(r.Results) == 1 {
				d := describeExpr(en, r.Results[0], 0)
				okE = d == "((param#0!=nil)&&(param#0.Error()!=const:\"EOF\"))"
			}
		}
		c.check(okE, "plumbing.read", en.ID, p.Pos(en.Decl.Pos()), "a read reaching the end of the file (io.EOF with n bytes) is a short read, not an error", "errNotEOF changed: a read crossing the end of a file is reported as EIO or a real error as success")
	}
	c.requireInstances("plumbing.read", 8)
	c.requireInstances("plumbing.fsentry", 8)
	_ = rootID
}

// assignmentsOf maps the description of every single assignment target of f to the description of its source
// (last assignment wins).
func assignmentsOf(f *FuncInfo) map[string]string {
	out := map[string]string{}
	ast.Inspect(f.Decl.Body, func(n ast.Node) bool {
		as, ok := n.(*ast.AssignStmt)
		if !ok {
			return true
		}
		if len(as.Lhs) == len(as.Rhs) {
			for i := range as.Lhs {
				out[describeExprAt(f, as.Lhs[i])] = describeExprAt(f, as.Rhs[i])
			}
		} else if len(as.Rhs) == 1 {
			for i := range as.Lhs {
				if _, isIdent := as.Lhs[i].(*ast.Ident); isIdent {
					continue
				}
				out[describeExprAt(f, as.Lhs[i])] = describeExprAt(f, as.Rhs[0]) + "#" + itoa(i)
			}
		}
		return true
	})
	return out
}

// checkNotFoundFails: `v, found := <tbl>.Get(k)`: the branch where found is false returns a non-nil error.
func checkNotFoundFails(c *Ctx, rule string, f *FuncInfo, tblPrefix string) {
	p := c.P
	b := p.BodyOf(f)
	info := f.Info()
	done := false
	ast.Inspect(f.Decl.Body, func(n ast.Node) bool {
		as, ok := n.(*ast.AssignStmt)
		if !ok || len(as.Lhs) != 2 || len(as.Rhs) != 1 || done {
			return true
		}
		if !strings.HasPrefix(describeExprAt(f, as.Rhs[0]), tblPrefix) {
			return true
		}
		fid, ok := as.Lhs[1].(*ast.Ident)
		if !ok {
			return true
		}
		fv, _ := info.Defs[fid].(*types.Var)
		if fv == nil {
			fv, _ = info.Uses[fid].(*types.Var)
		}
		if fv == nil {
			c.fail(rule, f.ID+":not-found", p.Pos(as.Pos()), "the found flag of the table lookup is discarded: a missing entry is dereferenced")
			done = true
			return true
		}
		// find `if !found { ... return }` or `if found { ... } else { ...return }`
		okGuard := false
		ast.Inspect(f.Decl.Body, func(m ast.Node) bool {
			ifs, ok := m.(*ast.IfStmt)
			if !ok {
				return true
			}
			var failBlock *ast.BlockStmt
			if u, ok := ast.Unparen(ifs.Cond).(*ast.UnaryExpr); ok && u.Op == token.NOT && isVar(info, u.X, fv) {
				failBlock = ifs.Body
			} else if isVar(info, ifs.Cond, fv) {
				if eb, ok := ifs.Else.(*ast.BlockStmt); ok {
					failBlock = eb
				}
			}
			if failBlock == nil || len(failBlock.List) == 0 {
				return true
			}
			if r, ok := failBlock.List[len(failBlock.List)-1].(*ast.ReturnStmt); ok {
				if cls := b.classifyReturn(r); cls == retFailure {
					okGuard = true
				} else if len(r.Results) == 0 {
					// naked return: the named error result was assigned a non-nil constant just before
					if len(failBlock.List) >= 2 {
						if pa, ok := failBlock.List[len(failBlock.List)-2].(*ast.AssignStmt); ok && len(pa.Lhs) == 1 && len(pa.Rhs) == 1 {
							if nr := b.namedErrResult(); nr != nil && isVar(info, pa.Lhs[0], nr) && !isNil(info, pa.Rhs[0]) {
								okGuard = true
							}
						}
					}
				}
			}
			return true
		})
		c.check(okGuard, rule, f.ID+":not-found", p.Pos(as.Pos()),
			"a missing entry makes the operation fail (ENOENT)",
			"the not-found branch of the table lookup no longer returns an error: a missing entry is answered with stale or zero data")
		done = true
		return true
	})
	if !done {
		c.fail(rule, f.ID+":not-found", p.Pos(f.Decl.Pos()), "no two-value lookup `"+tblPrefix+"…)` found in "+f.ID)
	}
}

// checkFuseKeys: formKey is fixed-width, formLookupKey is formKey(parent) ++ name.
func checkFuseKeys(c *Ctx, rule string) {
	p := c.P
	fk := p.Func("pkg/fuse.formKey")
	okFK := false
	{
		var mk, put, ret bool
		ast.Inspect(fk.Decl.Body, func(n ast.Node) bool {
			switch x := n.(type) {
			case *ast.CallExpr:
				id := calleeID(fk.Info(), x)
				if id == "builtin.make" && len(x.Args) == 2 {
					d := describeExpr(fk, x.Args[1], 0)
					mk = d == "global:intSize" || d == "const:8"
				}
				if id == "encoding/binary.bigEndian.PutUint64" && len(x.Args) == 2 {
					put = describeExprAt(fk, x.Args[1]) == "conv:uint64(param#0)"
				}
			case *ast.ReturnStmt:
				ret = len(x.Results) == 1
			}
			return true
		})
		okFK = mk && put && ret
		// intSize is the size of a uint64
		if pk := p.Pkg("pkg/fuse"); pk.Types.Scope().Lookup("intSize") != nil {
			for _, file := range pk.Syntax {
				for _, d := range file.Decls {
					gd, ok := d.(*ast.GenDecl)
					if !ok {
						continue
					}
					for _, sp := range gd.Specs {
						vs, ok := sp.(*ast.ValueSpec)
						if !ok || len(vs.Names) != 1 || vs.Names[0].Name != "intSize" || len(vs.Values) != 1 {
							continue
						}
						if tv, ok := pk.TypesInfo.Types[vs.Values[0]]; !ok || tv.Value == nil || tv.Value.ExactString() != "8" {
							okFK = false
						}
					}
				}
			}
		}
	}
	c.check(okFK, rule, fk.ID, p.Pos(fk.Decl.Pos()), "formKey encodes the inode as 8 big-endian bytes (fixed width)", "formKey is no longer a fixed-width 8-byte big-endian encoding of the inode: keys of different inodes, or lookup keys of different (parent, name) pairs, can coincide")
	fl := p.Func("pkg/fuse.formLookupKey")
	okFL := false
	ast.Inspect(fl.Decl.Body, func(n ast.Node) bool {
		if r, ok := n.(*ast.ReturnStmt); ok && len(r.Results) == 1 {
			d := describeExprAt(fl, r.Results[0])
			okFL = d == "call:builtin.append(call:pkg/fuse.formKey(param#0),call:pkg/convert.UnsafeStringToBytes(param#1))" ||
				d == "call:builtin.append(call:pkg/fuse.formKey(param#0),conv:[]byte(param#1))" ||
				d == "call:builtin.append(call:pkg/fuse.formKey(param#0),param#1)"
		}
		return true
	})
	c.check(okFL, rule, fl.ID, p.Pos(fl.Decl.Pos()), "formLookupKey = formKey(parent) ++ name", "formLookupKey is no longer formKey(parent) followed by the child name")
}

// checkPopulateWalk (C17): the upward walk of WithNodesFromEntry — found by the systematic mutation sweep to be
// unconstrained by the parent-link dataflow alone:
//
//	parentPath = path.Dir(nameWithPath) each round; the walk stops at the root exactly when parentPath is "", "." or "/";
//	when the parent directory is not known yet a directory entry is made for parentPath, nameWithPath becomes parentPath
//	and the walk continues; when it is known the walk stops.
func checkPopulateWalk(c *Ctx, rule string) {
	p := c.P
	f := p.Func("pkg/fuse.populate.WithNodesFromEntry")
	info := f.Info()
	roles := map[types.Object]string{}
	// nameWithPath: the variable initialised from the bundle entry's path and handed to path.Dir
	var loop *ast.ForStmt
	ast.Inspect(f.Decl.Body, func(n ast.Node) bool {
		if fs, ok := n.(*ast.ForStmt); ok && loop == nil && fs.Cond == nil {
			loop = fs
		}
		return true
	})
	if loop == nil {
		c.softUndecided("%s: WithNodesFromEntry no longer walks up with an unconditional for loop", rule)
		return
	}
	if vs := lhsVars(info, loop.Body, func(e ast.Expr) bool {
		call, ok := ast.Unparen(e).(*ast.CallExpr)
		return ok && calleeID(info, call) == "path.Dir" && len(call.Args) == 1
	}); len(vs) == 1 && vs[0] != nil {
		roles[vs[0]] = "parentPath"
		// its argument is the walking variable
		ast.Inspect(loop.Body, func(n ast.Node) bool {
			if call, ok := n.(*ast.CallExpr); ok && calleeID(info, call) == "path.Dir" {
				if id, ok := ast.Unparen(call.Args[0]).(*ast.Ident); ok {
					roles[info.Uses[id]] = "nameWithPath"
				}
			}
			return true
		})
	}
	// found flag of the dirStore lookup
	if vs := lhsVars(info, loop.Body, func(e ast.Expr) bool {
		call, ok := ast.Unparen(e).(*ast.CallExpr)
		return ok && calleeID(info, call) == iradixTxnGet
	}); len(vs) == 2 && vs[1] != nil {
		roles[vs[1]] = "found"
		if vs[0] != nil {
			roles[vs[0]] = "parent"
		}
	}
	// the walking variable starts at the entry's own path
	okStart := false
	for o, r := range roles {
		if r != "nameWithPath" {
			continue
		}
		for _, d := range defsOfVarWithIndex(f, o.(*types.Var)) {
			if d.rhs != nil && d.start < loop.Pos() && describeExprAt(f, d.rhs) == "recv.bundleEntry.NameWithPath" {
				okStart = true
			}
		}
	}
	c.check(okStart, rule, f.ID+":start", p.Pos(loop.Pos()), "the walk starts at the bundle entry's own path", "the upward walk no longer starts at the bundle entry's NameWithPath")
	// root test
	var rootIf *ast.IfStmt
	var lookupIf *ast.IfStmt
	for _, st := range loop.Body.List {
		ifs, ok := st.(*ast.IfStmt)
		if !ok {
			continue
		}
		var parts []string
		for _, d := range disjuncts(ifs.Cond) {
			parts = append(parts, roleCmp(info, d, roles, "parentPath"))
		}
		sortStrings(parts)
		if strings.Join(parts, "|") == `parentPath==""|parentPath=="."|parentPath=="/"` {
			rootIf = ifs
		}
		if d := roleString(info, ifs.Cond, roles); d == "!found" || d == "found" {
			lookupIf = ifs
		}
	}
	okRoot := false
	if rootIf != nil && len(rootIf.Body.List) > 0 {
		if br, ok := rootIf.Body.List[len(rootIf.Body.List)-1].(*ast.BranchStmt); ok && br.Tok == token.BREAK {
			okRoot = true
		}
	}
	c.check(okRoot, rule, f.ID+":root", p.Pos(loop.Pos()),
		"the walk stops under the root exactly when path.Dir gives \"\", \".\" or \"/\"",
		"the root test of the upward walk is no longer `parentPath == \"\" || parentPath == \".\" || parentPath == \"/\"` ending in break: entries directly under the root are linked to a spurious directory, or the walk never ends")
	okMiss, okHit := false, false
	if lookupIf != nil {
		missBlk, hitBlk := lookupIf.Body, (*ast.BlockStmt)(nil)
		if rest := elseOrRest(f, lookupIf); rest != nil {
			hitBlk = &ast.BlockStmt{List: rest}
		}
		if roleString(info, lookupIf.Cond, roles) == "found" {
			missBlk, hitBlk = hitBlk, lookupIf.Body
		}
		if missBlk != nil {
			adv, mk, cont := false, false, false
			for _, st := range missBlk.List {
				switch s := st.(type) {
				case *ast.AssignStmt:
					if len(s.Lhs) == 1 && len(s.Rhs) == 1 && roleString(info, s.Lhs[0], roles) == "nameWithPath" && roleString(info, s.Rhs[0], roles) == "parentPath" {
						adv = true
					}
					if len(s.Rhs) == 1 {
						if call, ok := ast.Unparen(s.Rhs[0]).(*ast.CallExpr); ok && calleeID(info, call) == "pkg/fuse.newFsEntry" && len(call.Args) == 4 {
							if inner, ok := ast.Unparen(call.Args[0]).(*ast.CallExpr); ok && calleeID(info, inner) == "pkg/fuse.newBundleEntry" && len(inner.Args) == 1 && roleString(info, inner.Args[0], roles) == "parentPath" {
								if dl, ok := repoConst(p, "pkg/fuse", "dirLinkCount"); ok && describeExpr(f, call.Args[3], 0) == constDesc(dl) {
									mk = true
								}
							}
						}
					}
				case *ast.BranchStmt:
					cont = s.Tok == token.CONTINUE
				}
			}
			okMiss = adv && mk && cont
		}
		// the hit branch (or the code after the if) ends the walk
		if hitBlk != nil {
			okHit = true
			for _, st := range hitBlk.List {
				if br, ok := st.(*ast.BranchStmt); ok && br.Tok == token.CONTINUE {
					okHit = false
				}
			}
		}
		// after the if, the loop body ends with break
		if l := len(loop.Body.List); l > 0 {
			if br, ok := loop.Body.List[l-1].(*ast.BranchStmt); !ok || br.Tok != token.BREAK {
				okHit = false
			}
		}
	}
	c.check(okMiss, rule, f.ID+":unknown-parent", p.Pos(loop.Pos()),
		"an unknown parent gets a directory entry for parentPath (directory link count), the walk moves up to it and continues",
		"when the parent directory is not known yet the walk no longer (creates a directory entry for parentPath with the directory link count, sets nameWithPath = parentPath, continues): intermediate directories are missing, duplicated, or the walk loops forever")
	c.check(okHit, rule, f.ID+":known-parent", p.Pos(loop.Pos()),
		"a known parent ends the walk", "a known parent no longer ends the upward walk (break): its ancestors are queued again and their insertion fails with ErrUnexpectedUpdate, or the walk never ends")
}

func sortStrings(xs []string) {
	for i := 1; i < len(xs); i++ {
		for j := i; j > 0 && xs[j] < xs[j-1]; j-- {
			xs[j], xs[j-1] = xs[j-1], xs[j]
		}
	}
}

// checkROErrorCodes (C17): a name / inode / directory that is not in the tables answers ENOENT, in every operation.
func checkROErrorCodes(c *Ctx, rule string) {
	p := c.P
	enoentDesc := "const:?"
	if v, ok := importedConst(p, "pkg/fuse", "github.com/jacobsa/fuse", "ENOENT"); ok {
		enoentDesc = constDesc(v)
	}
	for _, fid := range []string{
		"pkg/fuse.readOnlyFsInternal.LookUpInode", "pkg/fuse.readOnlyFsInternal.GetInodeAttributes", "pkg/fuse.readOnlyFsInternal.OpenDir",
		"pkg/fuse.readOnlyFsInternal.ReadDir", "pkg/fuse.readOnlyFsInternal.ReadFile",
	} {
		f := p.Func(fid)
		info := f.Info()
		// every two-value table lookup `v, found := T.Get(k)` / `v, found := m[k]` has a `!found` branch assigning/returning ENOENT
		nLook, nOK := 0, 0
		ast.Inspect(f.Decl.Body, func(n ast.Node) bool {
			as, ok := n.(*ast.AssignStmt)
			if !ok || len(as.Lhs) != 2 || len(as.Rhs) != 1 {
				return true
			}
			isLookup := false
			switch r := ast.Unparen(as.Rhs[0]).(type) {
			case *ast.CallExpr:
				isLookup = calleeID(info, r) == iradixTreeGet
			case *ast.IndexExpr:
				_, isMap := info.TypeOf(r.X).Underlying().(*types.Map)
				isLookup = isMap
			}
			if !isLookup {
				return true
			}
			fid2, ok := as.Lhs[1].(*ast.Ident)
			if !ok {
				return true
			}
			fv, _ := info.Defs[fid2].(*types.Var)
			if fv == nil {
				fv, _ = info.Uses[fid2].(*types.Var)
			}
			nLook++
			ast.Inspect(f.Decl.Body, func(m ast.Node) bool {
				ifs, ok := m.(*ast.IfStmt)
				if !ok {
					return true
				}
				var failBlock *ast.BlockStmt
				// `!found` alone or as one disjunct of the failing condition (`!found || offset > len(children)`)
				notFoundIn := func(e ast.Expr) bool {
					var walk func(x ast.Expr) bool
					walk = func(x ast.Expr) bool {
						x = ast.Unparen(x)
						if u, ok := x.(*ast.UnaryExpr); ok && u.Op == token.NOT && isVar(info, u.X, fv) {
							return true
						}
						if be, ok := x.(*ast.BinaryExpr); ok && be.Op == token.LOR {
							return walk(be.X) || walk(be.Y)
						}
						return false
					}
					return walk(e)
				}
				if notFoundIn(ifs.Cond) {
					failBlock = ifs.Body
				} else if isVar(info, ifs.Cond, fv) {
					if rest := elseOrRest(f, ifs); rest != nil {
						failBlock = &ast.BlockStmt{List: rest}
					}
				}
				if failBlock == nil {
					return true
				}
				enoent := false
				ast.Inspect(failBlock, func(q ast.Node) bool {
					switch s := q.(type) {
					case *ast.AssignStmt:
						for _, r := range s.Rhs {
							if describeExpr(f, r, 0) == enoentDesc {
								enoent = true
							}
						}
					case *ast.ReturnStmt:
						for _, r := range s.Results {
							if describeExpr(f, r, 0) == enoentDesc {
								enoent = true
							}
						}
					}
					return true
				})
				returns := false
				if l := len(failBlock.List); l > 0 {
					_, returns = failBlock.List[l-1].(*ast.ReturnStmt)
				}
				if enoent && returns {
					nOK++
				}
				return true
			})
			return true
		})
		c.check(nLook > 0 && nOK >= nLook, rule, fid, p.Pos(f.Decl.Pos()),
			"every table lookup answers ENOENT and returns when the entry is absent ("+itoa(nLook)+" lookups)",
			fid+" has "+itoa(nLook)+" table lookups but only "+itoa(nOK)+" `not found -> ENOENT, return` branches: an absent name, inode or directory is answered with another code or with stale data")
	}
	// readAtBundle: the staged copy serves exactly the non-streamed mode
	f := p.Func("pkg/fuse.readOnlyFsInternal.readAtBundle")
	info := f.Info()
	okMode := false
	ast.Inspect(f.Decl.Body, func(n ast.Node) bool {
		ifs, ok := n.(*ast.IfStmt)
		if !ok || nos(describeExpr(f, ifs.Cond, 0)) != "!recv.streamed" {
			return true
		}
		inThen, after := false, false
		ast.Inspect(ifs.Body, func(m ast.Node) bool {
			if call, ok := m.(*ast.CallExpr); ok && calleeID(info, call) == "pkg/storage.Store.GetAt" {
				inThen = true
			}
			return true
		})
		ast.Inspect(f.Decl.Body, func(m ast.Node) bool {
			if call, ok := m.(*ast.CallExpr); ok && calleeID(info, call) == "pkg/cafs.Fs.GetAt" && call.Pos() > ifs.End() {
				after = true
			}
			return true
		})
		endsReturn := false
		if l := len(ifs.Body.List); l > 0 {
			_, endsReturn = ifs.Body.List[l-1].(*ast.ReturnStmt)
		}
		okMode = inThen && after && endsReturn
		return true
	})
	c.check(okMode, rule, f.ID+":mode", p.Pos(f.Decl.Pos()), "a non-streamed mount reads the staged copy, a streamed mount reads through cafs", "readAtBundle no longer reads the staged copy exactly when the mount is not streamed (and cafs otherwise)")
	// errors of the backends make the read fail
	checkNoSwallow(c, rule+".backend-errors", f, func(id string) bool {
		return id == "pkg/storage.Store.GetAt" || id == "pkg/cafs.Fs.GetAt" || id == "pkg/cafs.KeyFromString"
	}, nil)
}
