package main

import (
	"go/ast"
	"go/token"
	"go/types"
	"regexp"
	"sort"
	"strings"

	"golang.org/x/tools/go/cfg"
)

// C04 — upload / download round trip: structural clauses.

var semNamesCore = map[string]bool{"concurrencyControl": true, "throttle": true}

// generatedSamples: paths that must / must not be recognised as generated, per the documented reserved locations
// (.datamon, .conflicts, .checkpoints at the root of the consumable store, in rooted and unrooted spellings).
var generatedYes = []string{
	".datamon", ".datamon/b.yaml", ".datamon/b-bundle-files-0.yaml", "/.datamon", "/.datamon/x", "./.datamon", "./.datamon/x",
	".conflicts", ".conflicts/s/f", "/.conflicts", "/.conflicts/x", "./.conflicts", "./.conflicts/s/f",
	".checkpoints", ".checkpoints/s/f", "/.checkpoints", "/.checkpoints/x", "./.checkpoints", "./.checkpoints/s/f",
}
var generatedNo = []string{
	".datamonrc", ".datamon-notes.txt", ".datamon.bak/old.yaml", "./.datamon.bak/old.yaml", "/.datamonx", "x.datamon", "a/.datamon/x",
	"datamon", "datamon/x", ".conflicts.log", ".conflictsx/y", "data/.conflicts/x", "conflicts/x",
	".checkpoints_2019/state.bin", ".checkpointsx", "data/.checkpoints/x", "checkpoints", "a.yaml", "dir/file", ".hidden",
}

// constRegexpAssigned finds the constant pattern given to regexp.MustCompile in an assignment to the package
// variable varName inside pkg.
func constRegexpAssigned(p *Prog, pkgRel, varName string) (string, token.Pos, bool) {
	pk := p.Pkg(pkgRel)
	info := pk.TypesInfo
	var pat string
	var pos token.Pos
	found := false
	for _, file := range pk.Syntax {
		ast.Inspect(file, func(n ast.Node) bool {
			as, ok := n.(*ast.AssignStmt)
			if !ok || len(as.Lhs) != 1 || len(as.Rhs) != 1 {
				return true
			}
			id, ok := as.Lhs[0].(*ast.Ident)
			if !ok || id.Name != varName {
				return true
			}
			if v, ok := info.Uses[id].(*types.Var); !ok || v.Parent() != pk.Types.Scope() {
				return true
			}
			call, ok := as.Rhs[0].(*ast.CallExpr)
			if !ok || calleeID(info, call) != "regexp.MustCompile" || len(call.Args) != 1 {
				return true
			}
			if s, ok := constString(info, call.Args[0]); ok {
				pat, pos, found = s, call.Pos(), true
			}
			return true
		})
	}
	return pat, pos, found
}

func init() {
	register(&propSpec{
		id: "C04",
		explanation: "Static structural clauses for the upload/download round trip: (a) generated paths never reach the content store: skipFile returns true whenever model.IsGeneratedFile does, the upload goroutine is unreachable on skipFile's true edge, and the constant generated-path regexp classifies a fixed sample of reserved paths and decoys exactly; " +
			"(b) record plumbing PutRes -> filePacked -> BundleEntry and BundleEntry -> download key/target is field-exact (def-use on composite literals, rename-robust); " +
			"(c) the index-file counter is incremented only on the nil-error branch of the list write, uploader and unpacker receive the same entries-per-file constant, and the unpacker places list i at i*entriesPerFile; " +
			"(d) the three fan-outs (upload files, download file lists, download entries) obey the bounded fan-out protocol: slot taken before each go, release only by a top-level defer registered before any send, completion signalled only after the cap-fold fill, collector channels unbuffered, error beats done. " +
			"Not decided: equality of trees, name handling (unicode/space), byte identity.",
		run: runC04,
	})
	addWitness(witness{Prop: "C04", Name: "early-slot-release", File: "pkg/core/bundle_pack.go",
		Old:    "\tputRes, e := cafsArchive.Put(ctx, fileReader)\n\tif e != nil {",
		New:    "\tputRes, e := cafsArchive.Put(ctx, fileReader)\n\t<-chans.concurrencyControl\n\tif e != nil {",
		Expect: "fanout"})
	addWitness(witness{Prop: "C04", Name: "regexp-loosened", File: "pkg/model/bundle.go",
		Old: "^\\.datamon/.*|^/\\.datamon/.*|^/\\.datamon$|^\\.datamon$|", New: "^\\.datamon.*|^/\\.datamon/.*|^/\\.datamon$|",
		Expect: "generated-regexp"})
	addWitness(witness{Prop: "C04", Name: "hash-name-swapped", File: "pkg/core/bundle_pack.go",
		Old: "\t\tHash:         packedFile.hash,\n\t\tNameWithPath: packedFile.name,", New: "\t\tHash:         packedFile.name,\n\t\tNameWithPath: packedFile.hash,",
		Expect: "plumbing"})
	addWitness(witness{Prop: "C04", Name: "count-before-write", File: "pkg/core/bundle_pack.go",
		Old:    "\tif err != nil {\n\t\treturn err\n\t}\n\tbundle.BundleDescriptor.BundleEntriesFileCount++\n\treturn nil",
		New:    "\tbundle.BundleDescriptor.BundleEntriesFileCount++\n\tif err != nil {\n\t\treturn err\n\t}\n\treturn nil",
		Expect: "index-count"})
	addWitness(witness{Prop: "C04", Name: "buffered-error-channel", File: "pkg/core/bundle_unpack.go",
		Old:    "\terrC := make(chan errorHit)\n\tdoneOkC := make(chan struct{})\n\tgo downloadBundleEntries(",
		New:    "\terrC := make(chan errorHit, 1)\n\tdoneOkC := make(chan struct{})\n\tgo downloadBundleEntries(",
		Expect: "fanout"})
	addWitness(witness{Prop: "C04", Name: "skip-check-dropped", File: "pkg/core/bundle_pack.go",
		Old: "\treturn model.IsGeneratedFile(file) || (b.SkipOnError && !exist)", New: "\treturn b.SkipOnError && (model.IsGeneratedFile(file) || !exist)",
		Expect: "generated-filter"})
}

func runC04(c *Ctx) {
	p := c.P
	c.assume("the cafs layer returns the stored bytes for a key (C01-C03) and the consumable store is a faithful key/value store (C16)")

	// --- (a) generated-path filter -------------------------------------------------------------------
	{
		f := p.Func("pkg/core.Bundle.skipFile")
		info := f.Info()
		// every return value must have model.IsGeneratedFile(<param 0>) as a top-level disjunct
		nRet := 0
		ast.Inspect(f.Decl.Body, func(n ast.Node) bool {
			r, ok := n.(*ast.ReturnStmt)
			if !ok || len(r.Results) != 1 {
				return true
			}
			nRet++
			ok2 := false
			for _, d := range disjuncts(r.Results[0]) {
				if call, ok := ast.Unparen(d).(*ast.CallExpr); ok && calleeID(info, call) == "pkg/model.IsGeneratedFile" && len(call.Args) == 1 {
					if describeExpr(f, call.Args[0], 0) == "param#0" {
						ok2 = true
					}
				}
			}
			c.check(ok2, "generated-filter.skipFile", f.ID+":return#"+itoa(nRet), p.Pos(r.Pos()),
				"skipFile's result has IsGeneratedFile(file) as an unconditional disjunct",
				"skipFile can return false for a generated path (IsGeneratedFile(file) is not an unconditional disjunct of `"+exprString(r.Results[0])+"`): .datamon/.conflicts/.checkpoints files would be uploaded")
			return true
		})
		c.requireInstances("generated-filter.skipFile", 1)
	}
	{
		f := p.Func("pkg/core.uploadBundleFiles")
		b := p.BodyOf(f)
		info := f.Info()
		const free, skipped = 1, 2
		var bad []ast.Node
		nGo := 0
		isSkipCond := func(e ast.Expr) bool {
			call, ok := ast.Unparen(e).(*ast.CallExpr)
			return ok && calleeID(info, call) == "pkg/core.Bundle.skipFile"
		}
		nCond := 0
		b.run(flowSpec{
			entry: free,
			node: func(n ast.Node, s uint64) uint64 {
				if g, ok := n.(*ast.GoStmt); ok && calleeID(info, g.Call) == "pkg/core.uploadBundleFile" {
					nGo++
					if s&skipped != 0 || s&4 == 0 {
						bad = append(bad, g)
					}
				}
				// a new loop iteration re-evaluates the filter: the range statement's key/value assignment resets
				return s
			},
			edge: func(blk *cfg.Block, i int, s uint64) uint64 {
				cond := condOf(blk)
				if cond != nil && isSkipCond(cond) {
					nCond++
					if i == 0 {
						return skipped
					}
					return free | 4 // 4: the filter was evaluated and said "do not skip"
				}
				if blk.Kind == cfg.KindRangeLoop || blk.Kind == cfg.KindForLoop {
					return free
				}
				return s
			},
		})
		if nGo == 0 || nCond == 0 {
			c.fail("generated-filter.before-upload", f.ID, p.Pos(f.Decl.Pos()), "uploadBundleFiles no longer tests skipFile before starting uploadBundleFile ("+itoa(nCond)+" tests, "+itoa(nGo)+" go statements)")
		} else {
			c.check(len(bad) == 0, "generated-filter.before-upload", f.ID+":go-uploadBundleFile", p.Pos(f.Decl.Pos()),
				"the upload goroutine starts only on the false edge of bundle.skipFile(file) evaluated in the same iteration",
				"uploadBundleFile can be started for a file that skipFile rejected or that was not filtered at all: generated paths are uploaded")
		}
	}
	checkGeneratedRegexp(c)

	// --- (b) record plumbing -------------------------------------------------------------------------
	{
		f := p.Func("pkg/core.uploadBundleFile")
		lits := compositeLits(f, "pkg/core.filePacked")
		if len(lits) != 1 {
			c.fail("plumbing.putres-to-filepacked", f.ID, p.Pos(f.Decl.Pos()), "expected exactly one filePacked literal, found "+itoa(len(lits)))
		} else {
			put := "param#2.Put(param#0,param#3)#0"
			checkLitFields(c, "plumbing.putres-to-filepacked", f, lits[0], f.ID+":filePacked", map[string]string{
				"hash": put + ".Key.String()",
				"name": "param#1",
				"size": "conv:uint64(" + put + ".Written)",
				"keys": put + ".Keys",
			}, "the bundle entry would not describe the file that was stored")
		}
	}
	{
		f := p.Func("pkg/core.filePacked2BundleEntry")
		lits := compositeLits(f, "pkg/model.BundleEntry")
		if len(lits) != 1 {
			c.fail("plumbing.filepacked-to-entry", f.ID, p.Pos(f.Decl.Pos()), "expected exactly one BundleEntry literal, found "+itoa(len(lits)))
		} else {
			checkLitFields(c, "plumbing.filepacked-to-entry", f, lits[0], f.ID+":BundleEntry", map[string]string{
				"Hash":         "param#0.hash",
				"NameWithPath": "param#0.name",
				"Size":         "param#0.size",
			}, "listed entries would not match the uploaded files")
		}
	}
	{
		f := p.Func("pkg/core.uploadBundle")
		// fileList = append(fileList, filePacked2BundleEntry(f)) where f is received from the filePacked channel
		n := 0
		info := f.Info()
		ast.Inspect(f.Decl.Body, func(nd ast.Node) bool {
			call, ok := nd.(*ast.CallExpr)
			if !ok || calleeID(info, call) != "pkg/core.filePacked2BundleEntry" {
				return true
			}
			n++
			return true
		})
		c.check(n == 1, "plumbing.collector-appends", f.ID, p.Pos(f.Decl.Pos()), "each received filePacked is converted exactly once", "uploadBundle converts received results "+itoa(n)+" times per loop (expected once): entries would be lost or duplicated")
	}
	{
		f := p.Func("pkg/core.downloadBundleEntrySyncMaybeOverwrite")
		info := f.Info()
		// key from bundleEntry.Hash; reader from fs.Get(ctx,key); Put(NameWithPath, reader)
		var put *ast.CallExpr
		ast.Inspect(f.Decl.Body, func(n ast.Node) bool {
			if call, ok := n.(*ast.CallExpr); ok && calleeID(info, call) == "pkg/storage.Store.Put" {
				put = call
			}
			return true
		})
		if put == nil {
			c.fail("plumbing.entry-to-download", f.ID, p.Pos(f.Decl.Pos()), "no ConsumableStore.Put found")
		} else {
			gotKey := describeExpr(f, put.Args[1], 0)
			gotSrc := describeExpr(f, put.Args[2], 0)
			c.check(gotKey == "param#1.NameWithPath", "plumbing.entry-to-download", f.ID+":Put.key", p.Pos(put.Pos()), "destination name <- bundleEntry.NameWithPath", "download writes to `"+gotKey+"` instead of the entry's NameWithPath")
			wantSrc := "param#3.Get(param#0,call:pkg/cafs.KeyFromString(param#1.Hash)#0)#0"
			c.check(gotSrc == wantSrc, "plumbing.entry-to-download", f.ID+":Put.source", p.Pos(put.Pos()), "content <- fs.Get(KeyFromString(bundleEntry.Hash))", "download content comes from `"+gotSrc+"` instead of `"+wantSrc+"`")
			recv := describeExpr(f, ast.Unparen(put.Fun).(*ast.SelectorExpr).X, 0)
			c.check(recv == "param#2.ConsumableStore", "plumbing.entry-to-download", f.ID+":Put.store", p.Pos(put.Pos()), "destination store <- bundle.ConsumableStore", "download writes into `"+recv+"`")
		}
	}

	// --- (c) index-file protocol ---------------------------------------------------------------------
	{
		f := p.Func("pkg/core.uploadBundleEntriesFileList")
		b := p.BodyOf(f)
		info := f.Info()
		isPut := callTo("pkg/storage.Store.Put", "pkg/storage.StoreCRC.PutCRC")
		isInc := func(n ast.Node) bool {
			inc, ok := n.(*ast.IncDecStmt)
			if !ok || inc.Tok != token.INC {
				return false
			}
			sel, ok := ast.Unparen(inc.X).(*ast.SelectorExpr)
			return ok && sel.Sel.Name == "BundleEntriesFileCount" && info.Selections[sel] != nil
		}
		bad, nT, nA := b.guardedByNilErr(isPut, isInc)
		if nT != 1 || nA == 0 {
			c.fail("index-count.after-successful-write", f.ID, p.Pos(f.Decl.Pos()), "expected one BundleEntriesFileCount++ after the list write, found "+itoa(nT)+" (writes: "+itoa(nA)+")")
		} else {
			c.check(len(bad) == 0, "index-count.after-successful-write", f.ID+":count++", p.Pos(f.Decl.Pos()),
				"the file-list counter is incremented only where the list write returned nil",
				"BundleEntriesFileCount++ is reachable when the list write failed or was not checked: the descriptor would count a list that does not exist (download fails) or skip an index")
		}
		// the list index in the key is the counter itself
		for _, s := range enumPutSites(p, "pkg/core") {
			if s.Fn.ID != f.ID {
				continue
			}
			c.check(s.Kind == "bundle-filelist", "index-count.key", s.Key, p.Pos(s.Call.Pos()), "list written under GetArchivePathToBundleFileList", "file list written under key kind "+s.Kind)
		}
		// key arguments
		for _, cs := range callersOf(p, "pkg/model.GetArchivePathToBundleFileList") {
			if cs.Fn.ID != f.ID {
				continue
			}
			got := describeExpr(f, cs.Call.Args[2], 0)
			c.check(got == "param#1.BundleDescriptor.BundleEntriesFileCount", "index-count.key", f.ID+":index-arg", p.Pos(cs.Call.Pos()), "list index <- bundle.BundleDescriptor.BundleEntriesFileCount", "file list index comes from `"+got+"`")
		}
	}
	{
		// same entries-per-file on both sides
		k := p.Pkg("pkg/core").Types.Scope().Lookup("defaultBundleEntriesPerFile")
		kc, _ := k.(*types.Const)
		if kc == nil {
			undecided("constant pkg/core.defaultBundleEntriesPerFile not found")
		}
		want := kc.Val().ExactString()
		type argSpec struct {
			callee string
			idx    int
		}
		n := 0
		for _, as := range []argSpec{{"pkg/core.uploadBundle", 2}, {"pkg/core.unpackBundleFileList", 3}, {"pkg/core.implPublish", 2}, {"pkg/core.implPublishMetadata", 3}, {"pkg/core.implUpload", 2}} {
			for _, cs := range callersOf(p, as.callee) {
				if strings.Contains(cs.Fn.ID, "pkg/core/mocks") {
					continue
				}
				got := describeExpr(cs.Fn, cs.Call.Args[as.idx], 0)
				n++
				okv := got == "const:"+want || strings.HasPrefix(got, "param#")
				c.check(okv, "index-count.entries-per-file-agree", callKey(cs.Fn, cs.Call), p.Pos(cs.Call.Pos()),
					"entries-per-file argument is the shared constant or a forwarded parameter ("+got+")",
					"entries-per-file argument `"+got+"` differs from defaultBundleEntriesPerFile="+want+": uploader and unpacker would disagree on list positions")
			}
		}
		// fileIndex default
		fi := p.Func("pkg/core.defaultFileIndex")
		okFI := false
		for _, cl := range compositeLitsAny(fi, "pkg/core.fileIndex") {
			if v := fieldOfCompositeLit(cl, "entriesPerFile"); v != nil && describeExpr(fi, v, 0) == "const:"+want {
				okFI = true
			}
		}
		c.check(okFI, "index-count.entries-per-file-agree", fi.ID+":entriesPerFile", p.Pos(fi.Decl.Pos()), "fileIndex.entriesPerFile defaults to the shared constant", "fileIndex.entriesPerFile no longer defaults to defaultBundleEntriesPerFile")
		// UploadBundleEntries slices by the same constant
		ub := p.Func("pkg/core.Bundle.UploadBundleEntries")
		cnt := 0
		ast.Inspect(ub.Decl.Body, func(nd ast.Node) bool {
			if id, ok := nd.(*ast.Ident); ok && ub.Info().Uses[id] == k {
				cnt++
			}
			return true
		})
		// the chunk size is the shared constant: it is what the loop steps by (however the loop is written), and no
		// other integer literal greater than 1 sizes anything in the function
		otherSize := false
		ast.Inspect(ub.Decl.Body, func(nd ast.Node) bool {
			if bl, ok := nd.(*ast.BasicLit); ok && bl.Kind == token.INT && bl.Value != "0" && bl.Value != "1" {
				otherSize = true
			}
			return true
		})
		c.check(cnt >= 1 && !otherSize, "index-count.entries-per-file-agree", ub.ID+":chunking", p.Pos(ub.Decl.Pos()), "UploadBundleEntries chunks by the shared constant", "UploadBundleEntries no longer chunks its entries by defaultBundleEntriesPerFile")
		_ = n
	}
	{
		// unpacker position = idx * entriesPerFile
		f := p.Func("pkg/core.unpackBundleFileList")
		info := f.Info()
		okPos := false
		var pos token.Pos = f.Decl.Pos()
		ast.Inspect(f.Decl.Body, func(n ast.Node) bool {
			call, ok := n.(*ast.CallExpr)
			if !ok {
				return true
			}
			if id, ok := ast.Unparen(call.Fun).(*ast.Ident); !ok || id.Name != "copy" || len(call.Args) != 2 {
				return true
			}
			if _, isB := info.Uses[ast.Unparen(call.Fun).(*ast.Ident)].(*types.Builtin); !isB {
				return true
			}
			pos = call.Pos()
			dst := describeExpr(f, call.Args[0], 0)
			src := describeExpr(f, call.Args[1], 0)
			// bundle.BundleEntries[idx*per:] <- res.bundleEntries.BundleEntries
			if dst == "param#1.BundleEntries[(conv:int(recv(param-chan).idx)*conv:int(param#3)):]" {
				okPos = true
			}
			// tolerate the description of the received value whatever its origin: check structure instead
			if strings.HasPrefix(dst, "param#1.BundleEntries[(conv:int(") && strings.HasSuffix(dst, ".idx)*conv:int(param#3)):]") && strings.HasSuffix(src, ".bundleEntries.BundleEntries") {
				okPos = true
			}
			return true
		})
		c.check(okPos, "index-count.position", f.ID+":copy", p.Pos(pos), "list i is copied to BundleEntries[i*entriesPerFile:]", "the unpacker no longer places file list i at offset i*entriesPerFile: entries of different lists overlap or leave holes")
	}

	// --- (d) fan-out protocol --------------------------------------------------------------------------
	checkCoreFanouts(c)
	c.requireInstances("fanout.release-deferred", 5)
	c.requireInstances("fanout.slot-before-go", 3)

	// --- (e) selection --------------------------------------------------------------------------------
	{
		f := p.Func("pkg/core.unpackDataFile")
		b := p.BodyOf(f)
		// a success return requires that a matching entry was downloaded or not-found error returned: success
		// returns must pass through downloadBundleEntrySync unless guarded by the found flag
		bad, nS := b.mustPassBeforeSuccess(func(bd *Body, call *ast.CallExpr) bool {
			return calleeID(bd.Info(), call) == "pkg/core.downloadBundleEntrySync"
		})
		// the loop may execute zero times: the final `return nil` must be guarded by `if !foundFile {return error}`
		// -> we accept success returns without download only if an `if !<flag>` returning failure dominates them.
		okGuard := false
		ast.Inspect(f.Decl.Body, func(n ast.Node) bool {
			ifs, ok := n.(*ast.IfStmt)
			if !ok {
				return true
			}
			if u, ok := ast.Unparen(ifs.Cond).(*ast.UnaryExpr); ok && u.Op == token.NOT {
				if len(ifs.Body.List) > 0 {
					if r, ok := ifs.Body.List[len(ifs.Body.List)-1].(*ast.ReturnStmt); ok && b.classifyReturn(r) == retFailure {
						okGuard = true
					}
				}
			}
			return true
		})
		c.check(nS > 0 && (len(bad) == 0 || okGuard), "selection.single-file", f.ID, p.Pos(f.Decl.Pos()),
			"a single-file download fails when the name is absent from the bundle",
			"unpackDataFile can return success without downloading anything and without a not-found error")
	}
	{
		// filtered download: the goroutine is started only when the predicate is nil or returned true
		f := p.Func("pkg/core.downloadBundleEntries")
		info := f.Info()
		okSel := false
		ast.Inspect(f.Decl.Body, func(n ast.Node) bool {
			ifs, ok := n.(*ast.IfStmt)
			if !ok {
				return true
			}
			hasGo := false
			for _, st := range ifs.Body.List {
				if g, ok := st.(*ast.GoStmt); ok && calleeID(info, g.Call) == "pkg/core.downloadBundleEntry" {
					hasGo = true
				}
			}
			if !hasGo {
				return true
			}
			d := disjuncts(ifs.Cond)
			if len(d) == 2 {
				a, b2 := describeExpr(f, d[0], 0), describeExpr(f, d[1], 0)
				if a == "(param#2==nil)" && strings.HasPrefix(b2, "call:param#2(") && strings.HasSuffix(b2, ".NameWithPath)#0") {
					okSel = true
				}
			}
			return true
		})
		c.check(okSel, "selection.predicate-gates-download", f.ID, p.Pos(f.Decl.Pos()),
			"an entry is downloaded only if there is no predicate or the predicate returned true for its name",
			"the selection predicate no longer gates `go downloadBundleEntry`: a filtered download would fetch other files or miss selected ones")
	}
	checkIteratorNilOnlyAtExhaustion(c, "index-count.iterator-nil-at-exhaustion")
	checkSpecificKeysPlumbing(c, "plumbing.selected-keys")
	checkDownloadWrites(c, "plumbing.download-writes")
	checkGenericErrorDiscipline(c, "pkg/core")
	checkUploadBatchProtocol(c, "index-count.batch-protocol")
	checkNoStreamInRetry(c, "plumbing.no-stream-in-retry", "pkg/cafs", "pkg/core")
	checkLeafSizeFromDescriptor(c, "plumbing.leaf-size-from-descriptor", "pkg/core", "pkg/fuse")
	checkPutSourceFreshPerAttempt(c, "plumbing.source-fresh-per-attempt", "pkg/core", "pkg/cafs", "pkg/storage")
}

// disjuncts splits a || b || c.
func disjuncts(e ast.Expr) []ast.Expr {
	e = ast.Unparen(e)
	if be, ok := e.(*ast.BinaryExpr); ok && be.Op == token.LOR {
		return append(disjuncts(be.X), disjuncts(be.Y)...)
	}
	return []ast.Expr{e}
}

func compositeLitsAny(f *FuncInfo, typeID string) []*ast.CompositeLit {
	var out []*ast.CompositeLit
	info := f.Info()
	ast.Inspect(f.Decl.Body, func(n ast.Node) bool {
		if cl, ok := n.(*ast.CompositeLit); ok {
			t := info.TypeOf(cl)
			if namedTypeID(t) == typeID {
				out = append(out, cl)
			}
		}
		return true
	})
	return out
}

// checkCollectorErrorWins: in the collector's select statements, every case receiving from an error channel
// returns a failure.
func checkCollectorErrorWins(c *Ctx, rule string, b *Body) {
	p := c.P
	info := b.Info()
	n := 0
	ast.Inspect(b.Block, func(nd ast.Node) bool {
		cc, ok := nd.(*ast.CommClause)
		if !ok || cc.Comm == nil {
			return true
		}
		var recv *ast.UnaryExpr
		ast.Inspect(cc.Comm, func(m ast.Node) bool {
			if u, ok := m.(*ast.UnaryExpr); ok && u.Op == token.ARROW {
				recv = u
			}
			return true
		})
		if recv == nil {
			return true
		}
		ch, ok := info.TypeOf(recv.X).Underlying().(*types.Chan)
		if !ok {
			return true
		}
		isErrChan := isErrorType(ch.Elem()) || namedTypeID(ch.Elem()) == "pkg/core.errorHit"
		if !isErrChan {
			return true
		}
		n++
		okRet := false
		if l := len(cc.Body); l > 0 {
			if r, ok := cc.Body[l-1].(*ast.ReturnStmt); ok {
				cls := b.classifyReturn(r)
				okRet = cls == retFailure || cls == retMaybe && len(r.Results) > 0 && usesRecvVar(info, r, cc)
			}
		}
		c.check(okRet, rule, b.Key()+":case-error#"+itoa(n), p.Pos(cc.Pos()),
			"the collector returns the received error at once",
			"the collector's error case does not return the received error: a failed worker no longer fails the operation")
		return true
	})
	if n == 0 {
		c.fail(rule, b.Key()+":case-error", p.Pos(b.Block.Pos()), "collector has no case receiving from an error channel")
	}
}

func usesRecvVar(info *types.Info, r *ast.ReturnStmt, cc *ast.CommClause) bool {
	as, ok := cc.Comm.(*ast.AssignStmt)
	if !ok || len(as.Lhs) == 0 {
		return false
	}
	id, ok := as.Lhs[0].(*ast.Ident)
	if !ok {
		return false
	}
	o := info.Defs[id]
	if o == nil {
		return false
	}
	return usesObj(info, r, o)
}

var _ = sort.Strings

// checkCoreFanouts applies the E-FANOUT obligations to the three bounded fan-outs of bundle upload/download
// (shared by C04, which needs that no result is lost, and C15, which needs the same protocol for every schedule).
func checkCoreFanouts(c *Ctx) {
	p := c.P
	type inst struct {
		coord, collector string
		workers          []string
		done             string
		chans            []string
	}
	for _, in := range []inst{
		{"pkg/core.uploadBundleFiles", "pkg/core.uploadBundle", []string{"pkg/core.uploadBundleFile"}, "doneOk", []string{"filePackedC", "errorC", "doneOkC"}},
		{"pkg/core.downloadBundleFileList", "pkg/core.unpackBundleFileList", []string{"pkg/core.downloadBundleFileListFile"}, "doneOk", []string{"bundleEntriesC", "errorC", "doneOkC"}},
		{"pkg/core.downloadBundleEntries", "pkg/core.unpackDataFiles", []string{"pkg/core.downloadBundleEntry", "pkg/core.downloadBundleEntryOverwrite", "pkg/core.deleteBundleEntry"}, "doneOk", []string{"errC", "doneOkC"}},
	} {
		checkFanoutCoordinator(c, "fanout", p.BodyOf(p.Func(in.coord)), semNamesCore, sendOn(in.done))
		for _, w := range in.workers {
			checkFanoutWorker(c, "fanout", p.BodyOf(p.Func(w)), semNamesCore)
		}
		cb := p.BodyOf(p.Func(in.collector))
		chs := collectorChannels(cb)
		if len(chs) < len(in.chans) {
			c.fail("fanout.collector-channels-unbuffered", in.collector+":channels", p.Pos(cb.Block.Pos()), "the collector selects on "+itoa(len(chs))+" local channels, expected the "+itoa(len(in.chans))+" confirmed by hand (result, error, done): its shape changed")
		}
		for _, ch := range chs {
			key := in.collector + ":chan " + ch.elem
			if !ch.made {
				c.fail("fanout.collector-channels-unbuffered", key, p.Pos(ch.pos), "a channel the collector selects on is not created by make in the collector")
				continue
			}
			c.check(ch.unbuffered, "fanout.collector-channels-unbuffered", key, p.Pos(ch.pos),
				"channel is unbuffered: a worker's send completes only when the collector received it, i.e. before the worker's slot is released",
				"the chan "+ch.elem+" the collector selects on is buffered: a worker can complete its send and release its slot before the collector received the value, the coordinator then signals done and the collector's select may take done first — the result or error is lost")
		}
		checkCollectorErrorWins(c, "fanout.error-beats-done", cb)
		// every go target of the coordinator is a checked worker
		cf := p.Func(in.coord)
		known := map[string]bool{}
		for _, w := range in.workers {
			known[w] = true
		}
		ast.Inspect(cf.Decl.Body, func(n ast.Node) bool {
			if g, ok := n.(*ast.GoStmt); ok {
				id := calleeID(cf.Info(), g.Call)
				c.check(known[id], "fanout.known-workers", callKey(cf, g.Call), p.Pos(g.Pos()), "goroutine target "+id+" is a checked worker", "coordinator starts an unchecked worker `"+id+"`")
			}
			return true
		})
	}
}

// checkGeneratedRegexp: the constant generated-path pattern, sampled against reserved paths and decoys (C04, C20).
func checkGeneratedRegexp(c *Ctx) {
	p := c.P
	if pat, pos, ok := constRegexpAssigned(p, "pkg/model", "genFileRe"); !ok {
		c.fail("generated-regexp", "pkg/model.genFileRe", "-", "the generated-path pattern is no longer a constant given to regexp.MustCompile: cannot be evaluated statically")
	} else {
		re, err := regexp.Compile(pat)
		if err != nil {
			c.fail("generated-regexp", "pkg/model.genFileRe", p.Pos(pos), "constant pattern does not compile: "+err.Error())
		} else {
			for _, s := range generatedYes {
				c.check(re.MatchString(s), "generated-regexp.reserved", "genFileRe~"+s, p.Pos(pos), "reserved path matched", "reserved generated path "+s+" is not matched by the constant pattern: it would be uploaded with the bundle")
			}
			for _, s := range generatedNo {
				c.check(!re.MatchString(s), "generated-regexp.decoy", "genFileRe!~"+s, p.Pos(pos), "ordinary path not matched", "ordinary user path "+s+" is matched by the generated-path pattern: the file is silently dropped from uploads")
			}
		}
		// IsGeneratedFile must apply that pattern to its parameter and nothing else
		f := p.Func("pkg/model.IsGeneratedFile")
		okBody := false
		ast.Inspect(f.Decl.Body, func(n ast.Node) bool {
			if r, ok := n.(*ast.ReturnStmt); ok && len(r.Results) == 1 {
				if describeExpr(f, r.Results[0], 0) == "global:genFileRe.MatchString(param#0)" {
					okBody = true
				}
			}
			return true
		})
		c.check(okBody, "generated-regexp.applied", f.ID, p.Pos(f.Decl.Pos()), "IsGeneratedFile returns genFileRe.MatchString(file)", "IsGeneratedFile no longer returns genFileRe.MatchString(file): the sampled pattern is not what decides")
	}
}
