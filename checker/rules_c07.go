package main

import (
	"go/ast"
	"go/token"
	"go/types"
	"strings"
)

// C07 — listings are complete, exact and ordered: structural clauses.

type listPipeline struct {
	kind      string
	chanFn    string // list*Chan
	fetchFn   string // fetch*
	batchFn   string // fetch*Batch
	asyncFn   string // get*Async
	storeFn   string // store accessor
	prefixFn  string // prefix builder
	delimiter string
	filter    string // basename filter literal, "" if none
	payload   string // field of the event literal carrying the object
	skip      bool   // ErrNotExists skip expected
	lessType  string
	lessKey   string
}

var listPipelines = []listPipeline{
	{"repos", "pkg/core.listReposChan", "pkg/core.fetchRepos", "pkg/core.fetchRepoBatch", "pkg/core.getRepoAsync", "pkg/core.GetRepoStore", "pkg/model.GetArchivePathPrefixToRepos", "", "", "repo", true, "RepoDescriptors", "Name"},
	{"bundles", "pkg/core.listBundlesChan", "pkg/core.fetchBundles", "pkg/core.fetchBundleBatch", "pkg/core.getBundleAsync", "pkg/core.GetBundleStore", "pkg/model.GetArchivePathPrefixToBundles", "/", "", "bundle", true, "BundleDescriptors", "ID"},
	{"labels", "pkg/core.listLabelsChan", "pkg/core.fetchLabels", "pkg/core.fetchLabelBatch", "pkg/core.getLabelAsync", "pkg/core.getLabelStore", "pkg/model.GetArchivePathPrefixToLabels", "", "", "label", false, "LabelDescriptors", "BundleID"},
	{"diamonds", "pkg/core.listDiamondsChan", "pkg/core.fetchDiamonds", "pkg/core.fetchDiamondBatch", "pkg/core.getDiamondAsync", "pkg/core.GetDiamondStore", "pkg/model.GetArchivePathPrefixToDiamonds", "", "diamond-", "diamond", true, "DiamondDescriptors", "StartTime|DiamondID"},
	{"splits", "pkg/core.listSplitsChan", "pkg/core.fetchSplits", "pkg/core.fetchSplitBatch", "pkg/core.getSplitAsync", "pkg/core.GetSplitStore", "pkg/model.GetArchivePathPrefixToSplits", "", "split-", "split", true, "SplitDescriptors", "StartTime|SplitID"},
}

func init() {
	register(&propSpec{
		id: "C07",
		explanation: "Static structural clauses for listings: (1) the paging loops (fetchKeys, copyIndexChunks, PurgeDropReverseIndex) are left, on a non-error path, only where the continuation token was tested empty; " +
			"(2) the five listing pipelines agree (sibling cross-check): each list*Chan scans its kind's prefix builder on its store with the expected delimiter and page size and wires fetchKeys -> [mergeKeys] -> fetch*; each fetch*Batch sorts before its success return and fails when a worker failed; each get*Async emits its object only where the read error was tested nil and skips silently only ErrNotExists; each fetch* forwards key-batch errors; " +
			"(3) basenameKeyFilter keeps exactly the keys whose base name starts with the filter, the filters are the descriptor prefixes and no other key kind under the scanned prefix has a base name starting with them (abstract evaluation of the path builders); " +
			"(4) mergeKeys keeps its pending-state map across pages, removes an entry only when settled, keys it by diamond+split ID, and the done descriptor sorts before the running one; " +
			"(5) the Less functions order by the documented key. Not decided: completeness for concrete histories; the store's own listing contract (C16).",
		run: runC07,
	})
	addWitness(witness{Prop: "C07", Name: "break-on-empty-page", File: "pkg/core/keys.go",
		Old:    "\t\t// an empty page (e.g. all keys filtered out) is not the end of the listing: only the\n\t\t// absence of a continuation token is.\n\t\tif next == \"\" {",
		New:    "\t\tif len(ks) == 0 || next == \"\" {",
		Expect: "paging"})
	addWitness(witness{Prop: "C07", Name: "filter-contains", File: "pkg/core/diamond.go",
		Old: "if !strings.HasPrefix(path.Base(key), filter) {", New: "if !strings.Contains(path.Base(key), filter) {",
		Expect: "filter"})
	addWitness(witness{Prop: "C07", Name: "merge-state-per-page", File: "pkg/core/keys.go",
		Old:    "\tstates := make(map[string]stateMerge, settings.batchSize)\n\tfor batch := range inputChan {\n",
		New:    "\tfor batch := range inputChan {\n\t\tstates := make(map[string]stateMerge, settings.batchSize)\n",
		Expect: "merge-keys"})
	addWitness(witness{Prop: "C07", Name: "batch-not-sorted", File: "pkg/core/split_list.go",
		Old: "\t// sort result batch\n\tsort.Sort(bds)\n\treturn bds, nil", New: "\tsort.Sort(model.SplitDescriptors{})\n\treturn bds, nil",
		Expect: "siblings.batch-sorted"})
	addWitness(witness{Prop: "C07", Name: "bundles-ordered-by-time", File: "pkg/model/bundle.go",
		Old: "\treturn b[i].ID < b[j].ID", New: "\treturn b[i].Timestamp.Before(b[j].Timestamp)",
		Expect: "order"})
	addWitness(witness{Prop: "C07", Name: "worker-error-ignored", File: "pkg/core/repo_list.go",
		Old: "\tif werr != nil {\n\t\treturn nil, werr\n\t}\n", New: "\t_ = werr\n",
		Expect: "siblings"})
	addWitness(witness{Prop: "C07", Name: "bundles-listed-without-delimiter", File: "pkg/core/bundle_list.go",
		Old: "model.GetArchivePathPrefixToBundles(repo), \"/\", settings.batchSize)\n\t}\n\t// starting keys retrieval", New: "model.GetArchivePathPrefixToBundles(repo), \"\", settings.batchSize)\n\t}\n\t// starting keys retrieval",
		Expect: "siblings.scan"})
}

// checkPagingLoop: in function f, the for-loop that calls the page iterator may be left only (a) on the iterator's
// error branch, (b) inside a select case on a done channel, (c) by a break/return guarded by `next == ""`.
func checkPagingLoop(c *Ctx, rule string, f *FuncInfo, isIter func(call *ast.CallExpr) bool) {
	p := c.P
	info := f.Info()
	b := p.BodyOf(f)
	var loop *ast.ForStmt
	var iterCall *ast.CallExpr
	ast.Inspect(f.Decl.Body, func(n ast.Node) bool {
		if fs, ok := n.(*ast.ForStmt); ok && loop == nil {
			ast.Inspect(fs.Body, func(m ast.Node) bool {
				if _, ok := m.(*ast.FuncLit); ok {
					return false
				}
				if call, ok := m.(*ast.CallExpr); ok && isIter(call) {
					loop, iterCall = fs, call
				}
				return true
			})
		}
		return true
	})
	if loop == nil {
		c.fail(rule, f.ID, p.Pos(f.Decl.Pos()), "no paging loop found around the page iterator call")
		return
	}
	if loop.Cond != nil {
		c.fail(rule, f.ID, p.Pos(loop.Pos()), "the paging loop has a loop condition `"+exprString(loop.Cond)+"`: it must run until the continuation token is empty")
		return
	}
	// the token variable: result #1 of the iterator call
	var nextVar, errVar *types.Var
	if as, ok := b.parent[iterCall].(*ast.AssignStmt); ok && len(as.Lhs) == 3 {
		if id, ok := as.Lhs[1].(*ast.Ident); ok {
			nextVar, _ = info.Uses[id].(*types.Var)
			if nextVar == nil {
				nextVar, _ = info.Defs[id].(*types.Var)
			}
		}
		if id, ok := as.Lhs[2].(*ast.Ident); ok {
			errVar, _ = info.Uses[id].(*types.Var)
			if errVar == nil {
				errVar, _ = info.Defs[id].(*types.Var)
			}
		}
	}
	if nextVar == nil || errVar == nil {
		c.fail(rule, f.ID, p.Pos(iterCall.Pos()), "the iterator's (keys, next, err) results are not bound to variables")
		return
	}
	nExit := 0
	bad := ""
	var badPos token.Pos
	var visit func(n ast.Node, guards []string)
	classify := func(e ast.Expr) string {
		for _, cj := range conjuncts(e) {
			if be, ok := ast.Unparen(cj).(*ast.BinaryExpr); ok {
				if be.Op == token.EQL && isVar(info, be.X, nextVar) {
					if s, ok := constString(info, be.Y); ok && s == "" {
						return "token-empty"
					}
				}
				if be.Op == token.NEQ && isVar(info, be.X, errVar) && isNil(info, be.Y) {
					return "iter-error"
				}
			}
		}
		return "other:" + exprString(e)
	}
	visit = func(n ast.Node, guards []string) {
		switch s := n.(type) {
		case nil:
			return
		case *ast.FuncLit:
			return
		case *ast.ForStmt:
			if s != loop {
				return // breaks inside nested loops do not leave the paging loop
			}
		case *ast.RangeStmt:
			// returns inside still leave; breaks do not. handle by visiting with a marker
			for _, st := range s.Body.List {
				visit(st, append(guards, "nested-loop"))
			}
			return
		case *ast.IfStmt:
			visit(s.Init, guards)
			g := classify(s.Cond)
			for _, st := range s.Body.List {
				visit(st, append(guards, g))
			}
			if s.Else != nil {
				visit(s.Else, append(guards, "else:"+g))
			}
			return
		case *ast.CommClause:
			g := "select"
			if s.Comm != nil {
				ast.Inspect(s.Comm, func(m ast.Node) bool {
					if u, ok := m.(*ast.UnaryExpr); ok && u.Op == token.ARROW {
						if t := info.TypeOf(u.X); t != nil && isStructChan(t) {
							g = "done-signal"
						}
					}
					return true
				})
			}
			for _, st := range s.Body {
				visit(st, append(guards, g))
			}
			return
		case *ast.BranchStmt:
			if s.Tok == token.BREAK {
				inNested := false
				inSelect := false
				for _, g := range guards {
					if g == "nested-loop" {
						inNested = true
					}
					if g == "select" || g == "done-signal" {
						inSelect = true
					}
				}
				if inNested || (inSelect && s.Label == nil) {
					return // leaves the inner construct only
				}
				nExit++
				checkExit(guards, &bad, &badPos, s.Pos(), "break")
			}
			return
		case *ast.ReturnStmt:
			nExit++
			checkExit(guards, &bad, &badPos, s.Pos(), "return")
			return
		}
		// generic descent
		var kids []ast.Node
		first := true
		ast.Inspect(n, func(m ast.Node) bool {
			if first {
				first = false
				return true
			}
			if m != nil {
				kids = append(kids, m)
			}
			return false
		})
		for _, k := range kids {
			visit(k, guards)
		}
	}
	for _, st := range loop.Body.List {
		visit(st, nil)
	}
	if nExit == 0 {
		c.fail(rule, f.ID, p.Pos(loop.Pos()), "the paging loop has no exit")
		return
	}
	c.check(bad == "", rule, f.ID, p.Pos(badPos),
		"the paging loop ("+itoa(nExit)+" exits) is left only on the iterator's error, on a done signal, or where the continuation token is empty",
		bad+": a page that is empty (e.g. after filtering) or any other condition must not end the listing while a continuation token remains — later objects would be silently dropped")
}

func checkExit(guards []string, bad *string, badPos *token.Pos, pos token.Pos, what string) {
	for _, g := range guards {
		if g == "token-empty" || g == "iter-error" || g == "done-signal" {
			return
		}
	}
	if *bad == "" {
		*bad = "the paging loop is left by a " + what + " under [" + strings.Join(guards, " && ") + "], which tests neither the continuation token nor the iterator's error"
		*badPos = pos
	}
}

func runC07(c *Ctx) {
	p := c.P
	c.assume("the store's KeysPrefix returns keys under the prefix in lexicographic order with a continuation token (C16 for localfs)")
	// (1) paging loops
	checkPagingLoop(c, "paging.token-only", p.Func("pkg/core.fetchKeys"), func(call *ast.CallExpr) bool {
		v, ok := calleeObj(p.Func("pkg/core.fetchKeys").Info(), call).(*types.Var)
		return ok && v.Name() != "" && paramIndex(p.Func("pkg/core.fetchKeys"), v) == 0
	})

	// (2) sibling pipelines
	checkListingPipelines(c)

	// (3) filter
	{
		f := p.Func("pkg/core.basenameKeyFilter")
		okCond := false
		var got string
		ast.Inspect(f.Decl.Body, func(n ast.Node) bool {
			ifs, ok := n.(*ast.IfStmt)
			if !ok {
				return true
			}
			d := describeExpr(f, ifs.Cond, 0)
			if strings.Contains(d, "param#0") {
				got = d
				if d == "!call:strings.HasPrefix(call:path.Base(range(litparam)),param#0)" && len(ifs.Body.List) == 1 {
					if br, ok := ifs.Body.List[0].(*ast.BranchStmt); ok && br.Tok == token.CONTINUE {
						okCond = true
					}
				}
			}
			return true
		})
		c.check(okCond, "filter.basename-prefix", f.ID, p.Pos(f.Decl.Pos()), "a key is dropped iff its base name does not start with the filter", "basenameKeyFilter's test is `"+got+"`: it must keep exactly the keys whose base name (last path segment) starts with the filter — any looser test lets deeper keys (e.g. under a split named split-xx) pass as descriptors")
		// next token and error pass through unchanged
		okPass := false
		ast.Inspect(f.Decl.Body, func(n ast.Node) bool {
			if r, ok := n.(*ast.ReturnStmt); ok && len(r.Results) == 3 {
				if describeExpr(f, r.Results[1], 0) == "litparam" && describeExpr(f, r.Results[2], 0) == "litparam" && strings.Contains(describeExpr(f, r.Results[0], 0), "append") || describeExpr(f, r.Results[0], 0) != "litparam" {
					okPass = true
				}
			}
			return true
		})
		c.check(okPass, "filter.token-preserved", f.ID, p.Pos(f.Decl.Pos()), "the continuation token and the error pass through the filter unchanged", "basenameKeyFilter no longer forwards the continuation token unchanged")
		// templates: under the scanned prefix, only the target kind's terminal starts with the filter
		builders := evalArchiveBuilders(c)
		for _, lp := range listPipelines {
			if lp.filter == "" {
				continue
			}
			pf := p.Func(lp.prefixFn)
			pts, why := evalBuilder(p, pf)
			if why != "" || len(pts) != 1 {
				undecided("%s cannot be evaluated (%s)", lp.prefixFn, why)
			}
			ps := pts[0].instantiate(sampleVals)
			wantKind := map[string]string{"diamond-": "diamond-descriptor", "split-": "split-descriptor"}[lp.filter]
			for _, eb := range builders {
				for _, t := range eb.tmpls {
					full := t.instantiate(sampleFor(t, "0"))
					if !strings.HasPrefix(full, ps) {
						continue
					}
					segs := t.segments()
					term := segs[len(segs)-1].instantiate(sampleFor(t, "0"))
					starts := strings.HasPrefix(term, lp.filter)
					c.check(starts == (eb.spec.kind == wantKind), "filter.kinds-separated", lp.kind+"~"+eb.spec.id+"~"+term, p.Pos(eb.f.Decl.Pos()),
						"under "+ps+": "+term+" ("+eb.spec.kind+") "+map[bool]string{true: "passes", false: "is dropped by"}[starts]+" the \""+lp.filter+"\" filter",
						"under "+ps+" the key "+full+" of kind "+eb.spec.kind+" "+map[bool]string{true: "passes", false: "is dropped by"}[starts]+" the \""+lp.filter+"\" filter of the "+lp.kind+" listing")
				}
			}
		}
	}

	// (4) mergeKeys
	checkMergeKeysState(c)
	checkListApplySiblings(c, "siblings.apply-errors")
	checkNoRelabelAsMissing(c, "siblings.no-relabel")
	checkGenericErrorDiscipline(c, "pkg/core")
	checkBatchDistributesAllKeys(c, "siblings.batch-distributes-all")
	if n := checkNoReuseAfterSend(c, "siblings.no-reuse-after-send", "pkg/core"); n == 0 {
		c.ok("siblings.no-reuse-after-send", "pkg/core:scan", "-", "no slice of pkg/core is recycled in place (append(x[:0], …)) and sent on a channel")
	}
	checkDescriptorConsulted(c, "siblings.descriptor-consulted")
	checkStagesForwardErrors(c, "siblings.stages-forward-errors")
}

// checkMergeKeysState is shared by several properties (the clause is necessary for each of them).
func checkMergeKeysState(c *Ctx) {
	p := c.P

	{
		f := p.Func("pkg/core.mergeKeys")
		info := f.Info()
		var statesVar *types.Var
		var declStmt ast.Node
		var outer *ast.RangeStmt
		ast.Inspect(f.Decl.Body, func(n ast.Node) bool {
			if rs, ok := n.(*ast.RangeStmt); ok && outer == nil {
				if ch, ok := info.TypeOf(rs.X).Underlying().(*types.Chan); ok && namedTypeID(ch.Elem()) == "pkg/core.keyBatchEvent" {
					outer = rs
				}
			}
			if as, ok := n.(*ast.AssignStmt); ok && len(as.Lhs) == 1 && len(as.Rhs) == 1 && as.Tok == token.DEFINE {
				if call, ok := as.Rhs[0].(*ast.CallExpr); ok {
					if id, ok := ast.Unparen(call.Fun).(*ast.Ident); ok && id.Name == "make" {
						if _, isMap := info.TypeOf(call).Underlying().(*types.Map); isMap && statesVar == nil {
							statesVar, _ = info.Defs[as.Lhs[0].(*ast.Ident)].(*types.Var)
							declStmt = as
						}
					}
				}
			}
			return true
		})
		if statesVar == nil || outer == nil {
			c.fail("merge-keys.state-persists", f.ID, p.Pos(f.Decl.Pos()), "mergeKeys no longer has a pending-state map and a loop over key batches")
		} else {
			c.check(!containsNode(outer, declStmt), "merge-keys.state-persists", f.ID, p.Pos(declStmt.Pos()),
				"the pending-state map is created once, outside the loop over pages", "the pending-state map is re-created for every page: a done/running descriptor pair straddling a page boundary is no longer merged (object listed twice, or a completed split seen as running)")
			// deletes only in the settle branch
			nDel := 0
			badDel := false
			b := p.BodyOf(f)
			ast.Inspect(f.Decl.Body, func(n ast.Node) bool {
				call, ok := n.(*ast.CallExpr)
				if !ok {
					return true
				}
				id, ok := ast.Unparen(call.Fun).(*ast.Ident)
				if !ok || id.Name != "delete" || len(call.Args) != 2 || !isVar(info, call.Args[0], statesVar) {
					return true
				}
				nDel++
				// the settle condition reads the counter of the pending state: an integer field of a value of the map's
				// element type (whatever the field is called), in a guard of the delete
				inSettle := false
				var elemT types.Type
				if mt, ok := statesVar.Type().Underlying().(*types.Map); ok {
					elemT = mt.Elem()
				}
				atoms, _ := atomsAt(f, f.Decl.Body, call.Pos())
				for _, at := range atoms {
					if elemT != nil && mentions(at.Expr, func(e ast.Expr) bool {
						sel, ok := e.(*ast.SelectorExpr)
						if !ok {
							return false
						}
						xt := info.TypeOf(sel.X)
						ft := info.TypeOf(sel)
						if xt == nil || ft == nil || !types.Identical(xt, elemT) {
							return false
						}
						bt, ok := ft.Underlying().(*types.Basic)
						return ok && bt.Info()&types.IsInteger != 0
					}) {
						inSettle = true
					}
				}
				_ = b
				if !inSettle {
					badDel = true
				}
				return true
			})
			c.check(nDel >= 1 && !badDel, "merge-keys.delete-when-settled", f.ID, p.Pos(f.Decl.Pos()), "entries leave the pending map only when settled (both states seen, or a lone running state)", "an entry is removed from the pending-state map outside the settle condition (e.g. flushed at the end of each page): the memory that pairs done/running keys across pages is lost")
			// key
			okKey := true
			nIdx := 0
			ast.Inspect(f.Decl.Body, func(n ast.Node) bool {
				if ix, ok := n.(*ast.IndexExpr); ok && isVar(info, ix.X, statesVar) {
					nIdx++
					d := describeExprAt(f, ix.Index) // a key hoisted into a local is described by its definition
					if !(strings.Contains(d, ".DiamondID") && strings.Contains(d, ".SplitID")) {
						okKey = false
					}
				}
				return true
			})
			c.check(nIdx > 0 && okKey, "merge-keys.keyed-by-object", f.ID, p.Pos(f.Decl.Pos()), "pending states are keyed by diamond ID + split ID", "the pending-state map is no longer keyed by diamond ID + split ID")
		}
		// done sorts before running
		for _, pair := range [][2]string{{"pkg/model.GetArchivePathToFinalDiamond", "pkg/model.GetArchivePathToInitialDiamond"}, {"pkg/model.GetArchivePathToFinalSplit", "pkg/model.GetArchivePathToInitialSplit"}} {
			a, _ := evalBuilder(p, p.Func(pair[0]))
			bb, _ := evalBuilder(p, p.Func(pair[1]))
			if len(a) != 1 || len(bb) != 1 {
				undecided("descriptor builders cannot be evaluated")
			}
			sa, sb := a[0].instantiate(sampleVals), bb[0].instantiate(sampleVals)
			c.check(sa < sb, "merge-keys.done-before-running", pair[0], "-", sa+" sorts before "+sb, "the done descriptor key "+sa+" no longer sorts before the running one "+sb+": mergeKeys relies on that order")
		}
	}
	_ = p
}

// checkListingPipelines (C07, pooled): the sibling listing pipelines (repos, bundles, labels, diamonds, splits) agree on
// scan, wiring, filtering, error forwarding, batch forwarding and batch ordering.
func checkListingPipelines(c *Ctx) {
	p := c.P
	for _, lp := range listPipelines {
		// scan
		cf := p.Func(lp.chanFn)
		info := cf.Info()
		okScan := false
		pageRewritten := false
		var scanDesc string
		// the listing function and the unexported helpers of the package it calls (an iterator factory)
		scope := []*FuncInfo{cf}
		ast.Inspect(cf.Decl.Body, func(n ast.Node) bool {
			if call, ok := n.(*ast.CallExpr); ok {
				if h := p.FuncOpt(calleeID(info, call)); h != nil && h.Decl.Body != nil && h != cf && !ast.IsExported(h.Decl.Name.Name) && strings.HasPrefix(h.ID, "pkg/core.") &&
					h.ID != "pkg/core.fetchKeys" && h.ID != "pkg/core.mergeKeys" && h.ID != lp.fetchFn {
					scope = append(scope, h)
				}
			}
			return true
		})
		for _, sf := range scope {
			sf := sf
			sinfo := sf.Info()
			ast.Inspect(sf.Decl.Body, func(n ast.Node) bool {
				call, ok := n.(*ast.CallExpr)
				if !ok || calleeID(sinfo, call) != "pkg/storage.Store.KeysPrefix" || len(call.Args) != 5 {
					return true
				}
				cf := sf
				recv := describeExpr(cf, ast.Unparen(call.Fun).(*ast.SelectorExpr).X, 0)
				tok := describeExpr(cf, call.Args[1], 0)
				pre := describeExpr(cf, call.Args[2], 0)
				del := describeExpr(cf, call.Args[3], 0)
				cnt := describeExpr(cf, call.Args[4], 0)
				scanDesc = recv + " KeysPrefix(" + tok + "," + pre + "," + del + "," + cnt + ")"
				okRecv := strings.HasPrefix(recv, "call:"+lp.storeFn+"(")
				okPre := strings.HasPrefix(pre, "call:"+lp.prefixFn+"(")
				okDel := del == "const:\""+lp.delimiter+"\""
				okCnt := strings.HasSuffix(cnt, ".batchSize")
				okTok := tok == "litparam"
				if okRecv && okPre && okDel && okCnt && okTok {
					okScan = true
				}
				// the page is returned as the store gave it (through the descriptor-name filter for diamonds and splits,
				// checked by filter.literal): the call is the returned expression itself, or the operand of the filter
				// application that is
				par := sf.parentOf(call)
				if pc, ok := par.(*ast.CallExpr); ok && lp.filter != "" {
					par = sf.parentOf(pc)
				}
				if _, isRet := par.(*ast.ReturnStmt); !isRet {
					pageRewritten = true
				}
				return true
			})
		}
		c.check(!pageRewritten, "siblings.page-as-listed", lp.chanFn, p.Pos(cf.Decl.Pos()), lp.kind+": the iterator returns the store's page as it is",
			"the "+lp.kind+" listing no longer returns the page of keys as the store listed it (the result of KeysPrefix is taken apart and rebuilt): keys dropped or rewritten there are objects missing from the listing, with no error")
		c.check(okScan, "siblings.scan", lp.chanFn, p.Pos(cf.Decl.Pos()), lp.kind+": "+scanDesc,
			lp.kind+" listing scans `"+scanDesc+"`; expected "+lp.storeFn+"(...).KeysPrefix(next, "+lp.prefixFn+"(...), \""+lp.delimiter+"\", settings.batchSize)")
		// wiring: go fetchKeys(iterator...), go fetchX(...), mergeKeys for filtered kinds
		goes := map[string]int{}
		ast.Inspect(cf.Decl.Body, func(n ast.Node) bool {
			if g, ok := n.(*ast.GoStmt); ok {
				goes[calleeID(info, g.Call)]++
			}
			return true
		})
		okWire := goes["pkg/core.fetchKeys"] >= 1 && goes[lp.fetchFn] == 1
		if lp.filter != "" {
			okWire = okWire && goes["pkg/core.mergeKeys"] == 1
		}
		c.check(okWire, "siblings.wiring", lp.chanFn, p.Pos(cf.Decl.Pos()), "fetchKeys -> "+map[bool]string{true: "mergeKeys -> ", false: ""}[lp.filter != ""]+shortCallee(lp.fetchFn), lp.kind+" listing no longer wires fetchKeys"+map[bool]string{true: " -> mergeKeys", false: ""}[lp.filter != ""]+" -> "+shortCallee(lp.fetchFn))
		// filter literal
		if lp.filter != "" {
			okF := false
			for _, cs := range callersOf(p, "pkg/core.basenameKeyFilter") {
				inScope := false
				for _, sf := range scope {
					if cs.Fn.ID == sf.ID {
						inScope = true
					}
				}
				if inScope {
					if s, ok := constString(cs.Fn.Info(), cs.Call.Args[0]); ok && s == lp.filter {
						okF = true
					}
				}
			}
			c.check(okF, "filter.literal", lp.chanFn, p.Pos(cf.Decl.Pos()), "descriptor filter is \""+lp.filter+"\"", lp.kind+" listing no longer filters keys with basenameKeyFilter(\""+lp.filter+"\")")
		}
		// fetchX forwards key batch errors
		{
			f := p.Func(lp.fetchFn)
			okFwd := false
			ast.Inspect(f.Decl.Body, func(n ast.Node) bool {
				ifs, ok := n.(*ast.IfStmt)
				if !ok {
					return true
				}
				if be, ok := ast.Unparen(ifs.Cond).(*ast.BinaryExpr); ok && be.Op == token.NEQ && strings.HasSuffix(exprString(be.X), ".err") && isNil(f.Info(), be.Y) {
					sends := false
					ast.Inspect(ifs.Body, func(m ast.Node) bool {
						if s, ok := m.(*ast.SendStmt); ok {
							if cl, ok := ast.Unparen(s.Value).(*ast.CompositeLit); ok && fieldOfCompositeLit(cl, "err") != nil {
								sends = true
							}
						}
						return true
					})
					if sends && blockDiverts(ifs.Body.List) {
						okFwd = true
					}
				}
				return true
			})
			c.check(okFwd, "siblings.key-errors-forwarded", lp.fetchFn, p.Pos(f.Decl.Pos()), "a failed key page is reported and stops the listing", shortCallee(lp.fetchFn)+" no longer reports a failed key page: the listing ends early and looks complete")
			// batch results: error stops, success sends the batch
			bb := p.BodyOf(f)
			isBatch := callTo(lp.batchFn)
			isSend := func(n ast.Node) bool {
				s, ok := n.(*ast.SendStmt)
				if !ok {
					return false
				}
				cl, ok := ast.Unparen(s.Value).(*ast.CompositeLit)
				return ok && (fieldOfCompositeLit(cl, lp.kind) != nil)
			}
			bad, nT, nA := bb.guardedByNilErr(isBatch, isSend)
			c.check(nT > 0 && nA > 0 && len(bad) == 0, "siblings.batch-forwarded", lp.fetchFn, p.Pos(f.Decl.Pos()), "a batch is emitted only when fetching it succeeded", shortCallee(lp.fetchFn)+" can emit a batch although "+shortCallee(lp.batchFn)+" failed")
			// a failed batch is never skipped: no `continue`/`break` is reachable from the batch call unless its error was
			// tested nil (a skipped batch drops up to a page of live objects from the listing without any error)
			var batchErr *types.Var
			for _, bc := range bb.findCalls(isBatch, false) {
				if v := errVarOfCall(bb, bc); v != nil {
					batchErr = v
				}
			}
			var badSkip []ast.Node
			ast.Inspect(f.Decl.Body, func(n ast.Node) bool {
				br, ok := n.(*ast.BranchStmt)
				if !ok || batchErr == nil {
					return true
				}
				for par := f.parentOf(br); par != nil; par = f.parentOf(par) {
					if ifs, ok := par.(*ast.IfStmt); ok && usesObj(f.Info(), ifs.Cond, batchErr) && condNilness(f.Info(), ifs.Cond, batchErr) != -1 {
						badSkip = append(badSkip, br)
					}
				}
				return true
			})
			c.check(len(badSkip) == 0, "siblings.batch-error-ends", lp.fetchFn, p.Pos(f.Decl.Pos()), "no failed batch is skipped", shortCallee(lp.fetchFn)+" can go on to the next page after "+shortCallee(lp.batchFn)+" failed (whatever the error): every live object of that page is missing from a listing that reports no error")
			// batches are emitted in key order: the worker resolves one page at a time in its own goroutine
			nGo := 0
			ast.Inspect(f.Decl.Body, func(n ast.Node) bool {
				if _, ok := n.(*ast.GoStmt); ok {
					nGo++
				}
				return true
			})
			c.check(nGo == 0, "siblings.batches-in-key-order", lp.fetchFn, p.Pos(f.Decl.Pos()), "pages are resolved and emitted one at a time, in key order", shortCallee(lp.fetchFn)+" resolves pages in concurrent goroutines: batches are emitted as they complete, so a listing spanning several pages is no longer in key order (squash and latest-bundle then pick the wrong bundles)")
		}
		// fetchXBatch: sorted before success; worker error fails
		{
			f := p.Func(lp.batchFn)
			b := p.BodyOf(f)
			bad, nS := b.mustPassBeforeSuccess(callTo("sort.Sort", "sort.Stable", "sort.Slice", "sort.SliceStable"))
			c.check(nS > 0 && len(bad) == 0, "siblings.batch-sorted", lp.batchFn, p.Pos(f.Decl.Pos()), "the batch is sorted before every success return", shortCallee(lp.batchFn)+" can return a batch without sorting it: workers complete in any order, so the listing order is arbitrary")
			// the collector: `for ev := range results { if ev.err != nil && werr == nil { werr = ev.err; …; break }; out = append(out, ev.x) }`
			{
				info := f.Info()
				okCollector := ""
				nLoops := 0
				ast.Inspect(f.Decl.Body, func(n ast.Node) bool {
					rs, ok := n.(*ast.RangeStmt)
					if !ok {
						return true
					}
					if _, isChan := info.TypeOf(rs.X).Underlying().(*types.Chan); !isChan {
						return true
					}
					kid, _ := rs.Key.(*ast.Ident)
					if kid == nil || kid.Name == "_" {
						return true
					}
					ev := info.Defs[kid]
					nLoops++
					isEvErr := func(e ast.Expr) bool {
						sel, ok := ast.Unparen(e).(*ast.SelectorExpr)
						if !ok {
							return false
						}
						id, ok := ast.Unparen(sel.X).(*ast.Ident)
						return ok && info.Uses[id] == ev && isErrorType(info.TypeOf(sel))
					}
					isNil := func(e ast.Expr) bool {
						id, ok := ast.Unparen(e).(*ast.Ident)
						return ok && id.Name == "nil"
					}
					foundIf, foundAppend := false, false
					for _, st := range rs.Body.List {
						switch x := st.(type) {
						case *ast.IfStmt:
							evTest, okShape := false, true
							for _, cj := range conjuncts(x.Cond) {
								be, ok := ast.Unparen(cj).(*ast.BinaryExpr)
								switch {
								case ok && be.Op == token.NEQ && isEvErr(be.X) && isNil(be.Y):
									evTest = true
								case ok && be.Op == token.EQL && isNil(be.Y) && isErrorType(info.TypeOf(be.X)) && !isEvErr(be.X):
								default:
									okShape = false
								}
							}
							if !evTest {
								continue
							}
							foundIf = true
							if !okShape {
								okCollector = "the error test is `" + exprString(x.Cond) + "`"
							}
							keeps := false
							for _, s2 := range x.Body.List {
								if as, ok := s2.(*ast.AssignStmt); ok && len(as.Rhs) == 1 && isEvErr(as.Rhs[0]) {
									keeps = true
								}
							}
							if !keeps {
								okCollector = "the worker's error is not kept"
							}
							if len(x.Body.List) == 0 {
								okCollector = "empty error branch"
							} else if br, ok := x.Body.List[len(x.Body.List)-1].(*ast.BranchStmt); !ok || br.Tok != token.BREAK {
								okCollector = "the error branch does not leave the loop"
							}
						case *ast.AssignStmt:
							if len(x.Rhs) == 1 {
								if call, ok := ast.Unparen(x.Rhs[0]).(*ast.CallExpr); ok && calleeID(info, call) == "builtin.append" && foundIf {
									for _, a := range call.Args[1:] {
										if usesObj(info, a, ev) {
											foundAppend = true
										}
									}
								}
							}
						}
					}
					if !foundIf {
						okCollector = "no `event.err != nil` test in the collecting loop"
					} else if !foundAppend && okCollector == "" {
						okCollector = "results are not appended after the error test"
					}
					return true
				})
				c.check(nLoops == 1 && okCollector == "", "siblings.batch-collector", lp.batchFn, p.Pos(f.Decl.Pos()),
					"the collector keeps the first worker error, leaves the loop on it, and appends every other result",
					shortCallee(lp.batchFn)+": "+okCollector+" ("+itoa(nLoops)+" collecting loop): a failed descriptor read is taken for a result (or results are dropped) and the batch is returned as complete")
			}
			// sort argument is the returned slice
			okArg := false
			ast.Inspect(f.Decl.Body, func(n ast.Node) bool {
				if call, ok := n.(*ast.CallExpr); ok && calleeID(f.Info(), call) == "sort.Sort" && len(call.Args) == 1 {
					arg := exprString(call.Args[0])
					ast.Inspect(f.Decl.Body, func(m ast.Node) bool {
						if r, ok := m.(*ast.ReturnStmt); ok && len(r.Results) == 2 && exprString(r.Results[0]) == arg {
							okArg = true
						}
						return true
					})
				}
				return true
			})
			c.check(okArg, "siblings.batch-sorted", lp.batchFn+":arg", p.Pos(f.Decl.Pos()), "the sorted slice is the returned one", "the slice that is sorted is not the slice that is returned")
			// worker error → failure: a `werr != nil` test whose body returns a failure, placed before the sort
			okErr := false
			ast.Inspect(f.Decl.Body, func(n ast.Node) bool {
				ifs, ok := n.(*ast.IfStmt)
				if !ok {
					return true
				}
				be, ok := ast.Unparen(ifs.Cond).(*ast.BinaryExpr)
				if !ok || be.Op != token.NEQ || !isNil(f.Info(), be.Y) {
					return true
				}
				id, ok := ast.Unparen(be.X).(*ast.Ident)
				if !ok {
					return true
				}
				v, _ := f.Info().Uses[id].(*types.Var)
				if v == nil || !isErrorType(v.Type()) {
					return true
				}
				if l := len(ifs.Body.List); l > 0 {
					if r, ok := ifs.Body.List[l-1].(*ast.ReturnStmt); ok && len(r.Results) == 2 && isVar(f.Info(), r.Results[1], v) {
						// v must be the variable the collector assigns from worker events
						assigned := false
						ast.Inspect(f.Decl.Body, func(m ast.Node) bool {
							if as, ok := m.(*ast.AssignStmt); ok && len(as.Lhs) == 1 && isVar(f.Info(), as.Lhs[0], v) && strings.HasSuffix(exprString(as.Rhs[0]), ".err") {
								assigned = true
							}
							return true
						})
						if assigned {
							okErr = true
						}
					}
				}
				return true
			})
			c.check(okErr, "siblings.worker-error-fails", lp.batchFn, p.Pos(f.Decl.Pos()), "an error reported by a worker fails the batch", shortCallee(lp.batchFn)+" no longer fails when a worker reported an error: objects that could not be read vanish from the listing")
		}
		// getXAsync
		{
			f := p.Func(lp.asyncFn)
			b := p.BodyOf(f)
			checkSilentSkipOnlyNotExists(c, b, "siblings.skip-only-not-exists", lp.skip)
			info := f.Info()
			isRead := func(bd *Body, call *ast.CallExpr) bool {
				// the last call in the loop body that binds an error before the payload send
				id := calleeID(info, call)
				switch id {
				case "pkg/core.downloadBundleDescriptor", "pkg/core.readDiamond", "pkg/core.readSplit", "pkg/core.getRepoDescriptorByRepoName", "pkg/core.Label.DownloadDescriptor":
					return true
				}
				return false
			}
			isSend := func(n ast.Node) bool {
				s, ok := n.(*ast.SendStmt)
				if !ok {
					return false
				}
				cl, ok := ast.Unparen(s.Value).(*ast.CompositeLit)
				return ok && fieldOfCompositeLit(cl, lp.payload) != nil
			}
			bad, nT, nA := b.guardedByNilErr(isRead, isSend)
			c.check(nT == 1 && nA == 1 && len(bad) == 0, "siblings.emit-on-success", lp.asyncFn, p.Pos(f.Decl.Pos()), "exactly one payload send, reached only where the descriptor read returned nil", shortCallee(lp.asyncFn)+" does not emit its object exactly once on the nil-error branch of the descriptor read ("+itoa(nT)+" sends, "+itoa(nA)+" reads)")
		}
		// order
		{
			lf := p.Func("pkg/model." + lp.lessType + ".Less")
			var rets []string
			ast.Inspect(lf.Decl.Body, func(n ast.Node) bool {
				if r, ok := n.(*ast.ReturnStmt); ok && len(r.Results) == 1 {
					rets = append(rets, describeExpr(lf, r.Results[0], 0))
				}
				return true
			})
			want := []string{}
			for _, k := range strings.Split(lp.lessKey, "|") {
				if k == "StartTime" {
					want = append(want, "recv[param#0].StartTime.Before(recv[param#1].StartTime)")
				} else {
					want = append(want, "(recv[param#0]."+k+"<recv[param#1]."+k+")")
				}
			}
			c.check(strings.Join(rets, ";") == strings.Join(want, ";"), "order.less", lf.ID, p.Pos(lf.Decl.Pos()), lp.kind+" ordered by "+lp.lessKey, lp.lessType+".Less returns `"+strings.Join(rets, ";")+"`, documented order is by "+lp.lessKey)
		}
	}
}
