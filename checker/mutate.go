package main

import (
	"encoding/json"
	"fmt"
	"go/ast"
	"go/constant"
	"go/token"
	"go/types"
	"os"
	"os/exec"
	"path/filepath"
	"runtime"
	"sort"
	"strings"
	"sync"
)

// Systematic mutation sweep (thorough exploration of the checker itself, still purely static): for one property,
// every function its rules are anchored in is mutated with small type-preserving operators; each mutant is loaded
// through the overlay (never written to disk, never executed), discarded if it does not type-check, and the
// property's rules are run on it. A mutant is "detected" if some rule reports a violation or UNDECIDED, otherwise it
// "survives". Survivors are not violations — many mutants leave the property intact — they are the list a human
// reads to find clauses the rules do not cover yet. The sweep report is written to <verif>/mutation/<prop>.json.

type mutant struct {
	ID   int    `json:"id"`
	File string `json:"file"` // relative to the repo
	Func string `json:"func"`
	Line int    `json:"line"`
	Op   string `json:"op"`
	From string `json:"from"`
	To   string `json:"to"`
	off0 int
	off1 int
}

type mutantResult struct {
	mutant
	Status string `json:"status"` // detected | survived | stillborn
	By     string `json:"by,omitempty"`
}

// anchorFuncs: the functions the property's rules name (p.Func / obligation keys).
func anchorFuncs(spec *propSpec, p *Prog) ([]*FuncInfo, []string) {
	p.touched = map[string]bool{}
	c := newCtx(spec.id, "mutate-scan", p)
	func() {
		defer func() { _ = recover() }()
		spec.runAll(c)
	}()
	ids := map[string]bool{}
	for id := range p.touched {
		ids[id] = true
	}
	for _, o := range c.Obs {
		if isPackageScanRule(o.Rule) || strings.Contains(o.Rule, ".shared.") {
			continue // package-wide scanning rules and pooled rules name every function they visit: not anchors of the property
		}
		k := o.Key
		for _, sep := range []string{":", "#", "~"} {
			if i := strings.Index(k, sep); i > 0 {
				k = k[:i]
			}
		}
		if p.funcs[k] != nil {
			ids[k] = true
		}
	}
	p.touched = nil
	var base []string
	for _, o := range c.Obs {
		if o.Verdict == VIOLATION {
			base = append(base, o.Rule+"|"+o.Key)
		}
	}
	var out []*FuncInfo
	for id := range ids {
		if f := p.funcs[id]; f != nil && f.Decl.Body != nil && !strings.HasPrefix(f.Decl.Name.Name, "var.") {
			out = append(out, f)
		}
	}
	sort.Slice(out, func(i, j int) bool { return out[i].ID < out[j].ID })
	return out, base
}

// isPackageScanRule: rules that visit every function of a package (generic disciplines); the functions they name are not
// taken as anchors of the mutation sweep (the sweep measures the property-specific rules on the property's own code).
func isPackageScanRule(rule string) bool {
	for _, suf := range []string{"value-guarded-by-error", "error-branch-fails", "every-error-tested", "argument-roles", "lock.pairing", "crash.inventory", "crash.value-types", "no-stale-element-pointer", "loopvar", "count-before-eof", "join.read-after-sync", "forget.link-count-writers"} {
		if strings.HasSuffix(rule, suf) {
			return true
		}
	}
	return false
}

func genMutants(p *Prog, f *FuncInfo, src []byte, rel string) []mutant {
	var out []mutant
	info := f.Info()
	file := p.Fset.File(f.Decl.Pos())
	off := func(pos token.Pos) int { return file.Offset(pos) }
	text := func(a, b token.Pos) string { return string(src[off(a):off(b)]) }
	add := func(op string, a, b token.Pos, to string) {
		from := text(a, b)
		if from == to {
			return
		}
		out = append(out, mutant{File: rel, Func: f.ID, Line: p.Fset.Position(a).Line, Op: op, From: from, To: to, off0: off(a), off1: off(b)})
	}
	// skip subtrees that only log / build messages
	var inLog func(n ast.Node) bool
	inLog = func(n ast.Node) bool {
		for x := n; x != nil; x = f.parentOf(x) {
			if call, ok := x.(*ast.CallExpr); ok && isLoggingCall(info, call) {
				return true
			}
			if call, ok := x.(*ast.CallExpr); ok {
				id := calleeID(info, call)
				if strings.HasPrefix(id, "fmt.") || strings.HasPrefix(id, "pkg/errors.") || strings.HasSuffix(id, ".WrapWithLog") || strings.HasSuffix(id, ".Wrap") || strings.HasPrefix(id, "pkg/metrics") {
					return true
				}
			}
		}
		return false
	}
	relAlt := map[token.Token]string{token.LSS: "<=", token.LEQ: "<", token.GTR: ">=", token.GEQ: ">", token.EQL: "!=", token.NEQ: "==", token.LAND: "||", token.LOR: "&&"}
	ast.Inspect(f.Decl.Body, func(n ast.Node) bool {
		if n == nil {
			return true
		}
		if inLog(n) {
			return false
		}
		switch x := n.(type) {
		case *ast.IfStmt:
			add("negate-cond", x.Cond.Pos(), x.Cond.End(), "!("+text(x.Cond.Pos(), x.Cond.End())+")")
		case *ast.ForStmt:
			if x.Cond != nil {
				add("negate-cond", x.Cond.Pos(), x.Cond.End(), "!("+text(x.Cond.Pos(), x.Cond.End())+")")
			}
		case *ast.BinaryExpr:
			if alt, ok := relAlt[x.Op]; ok {
				add("relop", x.OpPos, x.OpPos+token.Pos(len(x.Op.String())), alt)
			}
			if x.Op == token.ADD || x.Op == token.SUB {
				if tv, ok := info.Types[x]; ok && tv.Value == nil {
					if b, ok := tv.Type.Underlying().(*types.Basic); ok && b.Info()&types.IsInteger != 0 {
						alt := "-"
						if x.Op == token.SUB {
							alt = "+"
						}
						add("arith", x.OpPos, x.OpPos+1, alt)
					}
				}
			}
		case *ast.UnaryExpr:
			if x.Op == token.NOT {
				add("drop-not", x.Pos(), x.End(), text(x.X.Pos(), x.X.End()))
			}
		case *ast.CallExpr:
			// swap arguments of identical type
			nSwap := 0
			for i := 0; i < len(x.Args) && nSwap < 3; i++ {
				for j := i + 1; j < len(x.Args) && nSwap < 3; j++ {
					ti, tj := info.TypeOf(x.Args[i]), info.TypeOf(x.Args[j])
					if ti == nil || tj == nil || !types.Identical(ti, tj) {
						continue
					}
					a, b := text(x.Args[i].Pos(), x.Args[i].End()), text(x.Args[j].Pos(), x.Args[j].End())
					if a == b {
						continue
					}
					mid := text(x.Args[i].End(), x.Args[j].Pos())
					add("swap-args", x.Args[i].Pos(), x.Args[j].End(), b+mid+a)
					nSwap++
				}
			}
		case *ast.ExprStmt:
			if call, ok := x.X.(*ast.CallExpr); ok && !inLog(call) {
				add("del-stmt", x.Pos(), x.End(), "")
			}
		case *ast.IncDecStmt:
			add("del-stmt", x.Pos(), x.End(), "")
		case *ast.AssignStmt:
			if x.Tok != token.DEFINE {
				// deleting a plain assignment keeps the program well typed unless a variable becomes unused
				add("del-stmt", x.Pos(), x.End(), "")
			}
		case *ast.DeferStmt:
			add("del-stmt", x.Pos(), x.End(), "")
		case *ast.SendStmt:
			add("del-stmt", x.Pos(), x.End(), "")
		case *ast.BranchStmt:
			if x.Label == nil {
				switch x.Tok {
				case token.BREAK:
					if _, inSwitch := enclosingBreakTarget(f, x).(*ast.ForStmt); inSwitch {
						add("break-continue", x.Pos(), x.End(), "continue")
					} else if _, isRange := enclosingBreakTarget(f, x).(*ast.RangeStmt); isRange {
						add("break-continue", x.Pos(), x.End(), "continue")
					}
				case token.CONTINUE:
					add("break-continue", x.Pos(), x.End(), "break")
				}
			}
		case *ast.ReturnStmt:
			if len(x.Results) > 0 {
				last := x.Results[len(x.Results)-1]
				if isErrorType(info.TypeOf(last)) && !isNil(info, last) {
					add("return-nil-error", last.Pos(), last.End(), "nil")
				}
			}
		case *ast.BasicLit:
			if x.Kind == token.INT {
				if tv, ok := info.Types[x]; ok && tv.Value != nil && tv.Value.Kind() == constant.Int {
					if v, exact := constant.Int64Val(tv.Value); exact && v >= 0 && v < 1<<20 {
						add("const+1", x.Pos(), x.End(), fmt.Sprint(v+1))
					}
				}
			}
		case *ast.Ident:
			switch o := info.Uses[x].(type) {
			case *types.Const:
				if o.Pkg() == nil && (x.Name == "true" || x.Name == "false") {
					alt := "true"
					if x.Name == "true" {
						alt = "false"
					}
					add("bool-const", x.Pos(), x.End(), alt)
				} else if o.Pkg() != nil {
					// another constant of the same named type in the same package
					if alt := siblingConst(o); alt != "" {
						if _, isSel := f.parentOf(x).(*ast.SelectorExpr); isSel {
							add("sibling-const", x.Pos(), x.End(), alt)
						} else if o.Pkg() == f.Pkg.Types {
							add("sibling-const", x.Pos(), x.End(), alt)
						}
					}
				}
			}
		}
		return true
	})
	return out
}

// genRenames: one behaviour-preserving variant per local variable / parameter / named result of f: the variable is
// renamed consistently. Any new report on such a variant is a FALSE ALARM of the checker (a rule looked at a name).
func genRenames(p *Prog, f *FuncInfo, src []byte, rel string) []mutant {
	info := f.Info()
	file := p.Fset.File(f.Decl.Pos())
	type occ struct{ a, b int }
	occs := map[*types.Var][]occ{}
	order := []*types.Var{}
	typeSwitchVars := map[token.Pos]bool{}
	ast.Inspect(f.Decl, func(n ast.Node) bool {
		if ts, ok := n.(*ast.TypeSwitchStmt); ok {
			if as, ok := ts.Assign.(*ast.AssignStmt); ok && len(as.Lhs) == 1 {
				if id, ok := as.Lhs[0].(*ast.Ident); ok {
					typeSwitchVars[id.Pos()] = true
					for _, cl := range ts.Body.List {
						if o := info.Implicits[cl]; o != nil {
							typeSwitchVars[o.Pos()] = true
						}
					}
				}
			}
		}
		return true
	})
	ast.Inspect(f.Decl, func(n ast.Node) bool {
		id, ok := n.(*ast.Ident)
		if !ok || id.Name == "_" {
			return true
		}
		var v *types.Var
		if o, ok := info.Defs[id].(*types.Var); ok {
			v = o
		} else if o, ok := info.Uses[id].(*types.Var); ok {
			v = o
		}
		if v == nil || v.IsField() || v.Pkg() == nil || v.Parent() == nil || v.Parent() == v.Pkg().Scope() {
			return true
		}
		if !(v.Pos() >= f.Decl.Pos() && v.Pos() <= f.Decl.End()) {
			return true
		}
		if typeSwitchVars[v.Pos()] {
			return true // the symbol of a type switch has one object per clause sharing one identifier
		}
		if _, seen := occs[v]; !seen {
			order = append(order, v)
		}
		occs[v] = append(occs[v], occ{file.Offset(id.Pos()), file.Offset(id.End())})
		return true
	})
	// implicit uses (struct literal shorthand does not exist in Go; type switch symbolic vars have several objects
	// sharing one identifier: skip variables whose definition identifier is shared)
	var out []mutant
	for _, v := range order {
		os := occs[v]
		sort.Slice(os, func(i, j int) bool { return os[i].a < os[j].a })
		var sb strings.Builder
		last := os[0].a
		first := os[0].a
		end := os[len(os)-1].b
		for _, o := range os {
			sb.Write(src[last:o.a])
			sb.WriteString(v.Name() + "Rnq")
			last = o.b
		}
		out = append(out, mutant{File: rel, Func: f.ID, Line: p.Fset.Position(v.Pos()).Line, Op: "rename-local", From: v.Name(), To: sb.String(), off0: first, off1: end})
	}
	return out
}

func enclosingBreakTarget(f *FuncInfo, n ast.Node) ast.Node {
	for x := f.parentOf(n); x != nil; x = f.parentOf(x) {
		switch x.(type) {
		case *ast.ForStmt, *ast.RangeStmt, *ast.SwitchStmt, *ast.TypeSwitchStmt, *ast.SelectStmt:
			return x
		}
	}
	return nil
}

func siblingConst(o *types.Const) string {
	nt, ok := o.Type().(*types.Named)
	if !ok {
		return ""
	}
	scope := o.Pkg().Scope()
	names := scope.Names()
	for _, n := range names {
		if n == o.Name() {
			continue
		}
		if c, ok := scope.Lookup(n).(*types.Const); ok && types.Identical(c.Type(), nt) && c.Exported() == o.Exported() {
			if !constant.Compare(c.Val(), token.EQL, o.Val()) {
				return n
			}
		}
	}
	return ""
}

// runMutationSweep: coordinator. Mutants are evaluated by worker subprocesses (bounded memory), `par` at a time.
// sweepRenames selects the behaviour-preserving rename variants instead of the breaking operators.
var sweepRenames bool

func runMutationSweep(repo, verif, prop string, par, limit int) int {
	spec := registry[prop]
	if spec == nil {
		fmt.Printf("UNDECIDED: unknown property %q\n", prop)
		return 2
	}
	p := guardLoad(repo, "")
	funcs, baseViol := anchorFuncs(spec, p)
	var all []mutant
	srcs := map[string][]byte{}
	for _, f := range funcs {
		abs := p.Fset.Position(f.Decl.Pos()).Filename
		rel := strings.TrimPrefix(abs, repo+"/")
		if srcs[abs] == nil {
			b, err := os.ReadFile(abs)
			if err != nil {
				continue
			}
			srcs[abs] = b
		}
		if sweepRenames {
			all = append(all, genRenames(p, f, srcs[abs], rel)...)
		} else {
			all = append(all, genMutants(p, f, srcs[abs], rel)...)
		}
	}
	// a mutant site shared by several functions (literals) would be duplicated: dedupe on (file, offsets, to)
	seen := map[string]bool{}
	var ms []mutant
	for _, m := range all {
		k := fmt.Sprintf("%s|%d|%d|%s", m.File, m.off0, m.off1, m.To)
		if !seen[k] {
			seen[k] = true
			m.ID = len(ms)
			ms = append(ms, m)
		}
	}
	if limit > 0 && len(ms) > limit {
		// deterministic thinning
		step := float64(len(ms)) / float64(limit)
		var thin []mutant
		for i := 0; i < limit; i++ {
			thin = append(thin, ms[int(float64(i)*step)])
		}
		ms = thin
	}
	fmt.Printf("property=%s anchor-functions=%d mutants=%d workers=%d\n", prop, len(funcs), len(ms), par)
	if par <= 0 {
		par = runtime.NumCPU() / 2
	}
	exe, _ := os.Executable()
	tmp, _ := os.MkdirTemp("", "dmverif-mut-")
	defer os.RemoveAll(tmp)
	const batch = 64
	type job struct{ lo, hi int }
	jobs := make(chan job)
	results := make([]mutantResult, len(ms))
	var wg sync.WaitGroup
	for w := 0; w < par; w++ {
		wg.Add(1)
		go func(w int) {
			defer wg.Done()
			for j := range jobs {
				in := filepath.Join(tmp, fmt.Sprintf("in-%d-%d.json", w, j.lo))
				outp := filepath.Join(tmp, fmt.Sprintf("out-%d-%d.json", w, j.lo))
				type wire struct {
					mutant
					Off0, Off1 int
					Base       []string
				}
				var ws []wire
				for _, m := range ms[j.lo:j.hi] {
					ws = append(ws, wire{m, m.off0, m.off1, baseViol})
				}
				b, _ := json.Marshal(ws)
				_ = os.WriteFile(in, b, 0o644)
				cmd := exec.Command(exe, "-mutant-worker", in, "-mutant-out", outp, "-prop", prop, "-repo", repo)
				cmd.Env = append(os.Environ(), "GOMAXPROCS=2")
				_ = cmd.Run()
				var rs []mutantResult
				if rb, err := os.ReadFile(outp); err == nil {
					_ = json.Unmarshal(rb, &rs)
				}
				for i := j.lo; i < j.hi; i++ {
					results[i] = mutantResult{mutant: ms[i], Status: "worker-failed"}
				}
				for k, r := range rs {
					if j.lo+k < j.hi {
						r.mutant = ms[j.lo+k]
						results[j.lo+k] = r
					}
				}
				_ = os.Remove(in)
				_ = os.Remove(outp)
			}
		}(w)
	}
	for lo := 0; lo < len(ms); lo += batch {
		hi := lo + batch
		if hi > len(ms) {
			hi = len(ms)
		}
		jobs <- job{lo, hi}
	}
	close(jobs)
	wg.Wait()
	counts := map[string]int{}
	byOp := map[string]map[string]int{}
	var survivors []mutantResult
	for _, r := range results {
		counts[r.Status]++
		if byOp[r.Op] == nil {
			byOp[r.Op] = map[string]int{}
		}
		byOp[r.Op][r.Status]++
		if r.Status == "survived" {
			survivors = append(survivors, r)
		}
	}
	viable := counts["detected"] + counts["survived"]
	score := 0.0
	if viable > 0 {
		score = float64(counts["detected"]) / float64(viable)
	}
	rep := map[string]interface{}{
		"property": prop, "repo": repo, "anchor_functions": len(funcs), "mutants": len(ms), "counts": counts,
		"by_operator": byOp, "detected_fraction_of_type_correct_mutants": score, "survivors": survivors,
		"note": "survivors are NOT violations: a mutant may leave the property intact; they are the reading list for clauses not yet covered",
	}
	_ = os.MkdirAll(filepath.Join(verif, "mutation"), 0o755)
	name := prop + ".json"
	if sweepRenames {
		// here "detected" means FALSE ALARM: list them
		var fa []mutantResult
		for _, r := range results {
			if r.Status == "detected" || r.Status == "stillborn" {
				fa = append(fa, r)
			}
		}
		rep = map[string]interface{}{"property": prop, "variants": len(ms), "counts": counts,
			"false_alarms_or_unparsable": fa, "note": "consistent renames of locals/parameters/results: behaviour is unchanged, so every report is a false alarm"}
		name = prop + ".renames.json"
	}
	b, _ := json.MarshalIndent(rep, "", " ")
	_ = os.WriteFile(filepath.Join(verif, "mutation", name), b, 0o644)
	fmt.Printf("property=%s mutants=%d stillborn=%d detected=%d survived=%d worker-failed=%d detected/viable=%.2f\n", prop, len(ms), counts["stillborn"], counts["detected"], counts["survived"], counts["worker-failed"], score)
	return 0
}

// runMutantWorker evaluates a batch of mutants in this process.
func runMutantWorker(inPath, outPath, prop, repo string) int {
	b, err := os.ReadFile(inPath)
	if err != nil {
		return 2
	}
	var ws []struct {
		mutant
		Off0, Off1 int
		Base       []string
	}
	if err := json.Unmarshal(b, &ws); err != nil {
		return 2
	}
	spec := registry[prop]
	var out []mutantResult
	base0 := guardLoad(repo, "")
	baseAll := map[string]map[string]bool{}
	for _, w := range ws {
		r := mutantResult{mutant: w.mutant}
		abs := filepath.Join(repo, w.File)
		src, err := os.ReadFile(abs)
		if err != nil || w.Off1 > len(src) {
			r.Status = "stillborn"
			out = append(out, r)
			continue
		}
		mutated := string(src[:w.Off0]) + w.To + string(src[w.Off1:])
		func() {
			defer func() {
				if rec := recover(); rec != nil {
					if u, ok := rec.(undecidedErr); ok {
						if strings.Contains(u.msg, "does not type-check") || strings.Contains(u.msg, "loading") {
							r.Status = "stillborn"
							return
						}
						r.Status, r.By = "detected", "UNDECIDED: "+oneLine(u.msg)
						return
					}
					r.Status, r.By = "detected", fmt.Sprintf("checker panic: %v", rec)
				}
			}()
			p, ok, why := base0.withFile(abs, []byte(mutated))
			if !ok {
				if strings.Contains(why, "does not type-check") {
					r.Status, r.By = "stillborn", why
					return
				}
				p = loadProg(repo, "", map[string][]byte{abs: []byte(mutated)})
			}
			c := newCtx(prop, "mutant", p)
			spec.runAll(c)
			base := map[string]bool{}
			for _, k := range w.Base {
				base[k] = true
			}
			for _, o := range c.Obs {
				if o.Verdict == VIOLATION && !base[o.Rule+"|"+o.Key] {
					r.Status, r.By = "detected", o.Rule
					return
				}
			}
			if len(c.Undec) > 0 {
				r.Status, r.By = "detected", "UNDECIDED: "+oneLine(c.Undec[0])
				return
			}
			if os.Getenv("DMVERIF_MUT_ALLPROPS") != "" {
				// triage mode: a mutant counts as surviving only if no property's check reports it
				var ids []string
				for id := range registry {
					if id != prop {
						ids = append(ids, id)
					}
				}
				sort.Strings(ids)
				for _, q := range ids {
					if baseAll[q] == nil {
						cb := newCtx(q, "mutant", base0)
						func() {
							defer func() { _ = recover() }()
							registry[q].runAll(cb)
						}()
						baseAll[q] = map[string]bool{}
						for _, o := range cb.Obs {
							if o.Verdict == VIOLATION {
								baseAll[q][o.Rule+"|"+o.Key] = true
							}
						}
					}
					cq := newCtx(q, "mutant", p)
					func() {
						defer func() { _ = recover() }()
						registry[q].runAll(cq)
					}()
					for _, o := range cq.Obs {
						if o.Verdict == VIOLATION && !baseAll[q][o.Rule+"|"+o.Key] {
							r.Status, r.By = "detected", o.Rule
							return
						}
					}
				}
			}
			r.Status = "survived"
		}()
		if len(r.By) > 160 {
			r.By = r.By[:160]
		}
		out = append(out, r)
		runtime.GC()
	}
	ob, _ := json.Marshal(out)
	if err := os.WriteFile(outPath, ob, 0o644); err != nil {
		return 2
	}
	return 0
}
