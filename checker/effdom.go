package main

// E-DOM — effect dominance against a reviewed reference table.
//
// Many of the properties rest on "this operation always consults / writes the store before it reports success": a
// listing reads the listing, a commit re-lists the splits, a mount downloads before serving, a tracked write commits
// its transaction. A new path that reaches a success return around such an operation (a cache, an "already there"
// shortcut, an early return) breaks the property for the histories in which the skipped operation mattered, and
// compiles and passes the tests.
//
// For every declared function the analysis computes its MUST-effects: the external effects (object-store, cafs,
// file-system, radix-tree and KV operations, identified by the resolved callee and — for store operations — by the kind
// of key they are given) that every path to a return that may be a success passes through, either directly or inside a
// statically resolved callee of the repository (callee summaries are inlined, so extracting or inlining a helper does
// not change a function's set). Effects inside goroutines and function literals handed to a call are recorded with a
// `go:` / `fn:` prefix at the point where the goroutine is started / the literal is handed over.
//
// effdom_table.json holds the sets of the reviewed tree (generated with `dmverif -gen-effdom`, then read: each entry is
// an operation whose loss changes what the function reports). The rule fails when a function still present has lost a
// must-effect it had: the report names the function, the effect and a success return that no longer passes it.
// Functions that no longer exist are skipped (renaming or removing a helper is not a violation); new functions and new
// effects are not constrained.

import (
	_ "embed"
	"encoding/json"
	"go/ast"
	"go/types"
	"os"
	"sort"
	"strings"

	"golang.org/x/tools/go/cfg"
)

//go:embed effdom_table.json
var effdomTableJSON []byte

var effdomTable map[string][]string

func loadEffdomTable() map[string][]string {
	if effdomTable == nil {
		effdomTable = map[string][]string{}
		if len(effdomTableJSON) > 0 {
			if err := json.Unmarshal(effdomTableJSON, &effdomTable); err != nil {
				undecided("effdom_table.json: %v", err)
			}
		}
	}
	return effdomTable
}

// effect classes: resolved callee prefixes whose calls are external effects
var effectCallees = []string{
	"pkg/storage.Store.", "pkg/storage.StoreCRC.", "pkg/storage.VersionedStore.", "pkg/storage.StoreVersioned.",
	"pkg/cafs.Fs.", "pkg/core.kvStore.", "pkg/core.kvIterator.",
}

var effectCalleeSuffixes = []string{
	"afero.Fs.OpenFile", "afero.Fs.Create", "afero.Fs.Remove", "afero.Fs.RemoveAll", "afero.Fs.Rename", "afero.Fs.Stat", "afero.Fs.MkdirAll", "afero.Fs.Open",
	"io.WriterAt.WriteAt", "afero.File.WriteAt", "afero.File.ReadAt", "afero.File.Truncate", "afero.File.Sync", "afero.File.Write", "afero.File.Stat",
	"go-immutable-radix.Tree.Txn", "go-immutable-radix.Txn.Insert", "go-immutable-radix.Txn.Delete", "go-immutable-radix.Txn.Commit", "go-immutable-radix.Node.Walk",
	"go-immutable-radix.Tree.Insert", "go-immutable-radix.Tree.Delete", "go-immutable-radix.Tree.Get",
}

// directEffect names the external effect of a call, or "".
func directEffect(f *FuncInfo, call *ast.CallExpr) string {
	info := f.Info()
	id := calleeID(info, call)
	if id == "" {
		return ""
	}
	for _, pre := range effectCallees {
		if strings.HasPrefix(id, pre) {
			eff := strings.TrimPrefix(id, "pkg/")
			// a checksummed write is a write: `switch s := store.(type) { case StoreCRC: s.PutCRC(…) default: s.Put(…) }`
			// has the one effect "the object is written"
			if eff == "storage.StoreCRC.PutCRC" {
				eff = "storage.Store.Put"
			}
			// store operations: add the kind of key when it comes from a path builder
			if strings.HasPrefix(id, "pkg/storage.") && len(call.Args) >= 2 {
				k := resolveKeyKind(f, call.Args[1], 0)
				if k != "" && !strings.ContainsAny(k, ":|") {
					eff += "[" + k + "]"
				}
			}
			return eff
		}
	}
	for _, suf := range effectCalleeSuffixes {
		if strings.HasSuffix(id, suf) {
			return suf
		}
	}
	return ""
}

type effAnalysis struct {
	p     *Prog
	memo  map[string]map[string]bool
	inPro map[string]bool
}

func (p *Prog) effdom() *effAnalysis {
	if p.eff == nil {
		p.eff = &effAnalysis{p: p, memo: map[string]map[string]bool{}, inPro: map[string]bool{}}
	}
	return p.eff
}

// callEffects returns the effects a call statement certainly has: its own, or the must-effects of its repo callee; for
// a function literal argument the literal's must-effects prefixed with fn:.
func (a *effAnalysis) callEffects(f *FuncInfo, call *ast.CallExpr) map[string]bool {
	out := map[string]bool{}
	if e := directEffect(f, call); e != "" {
		out[e] = true
		return out
	}
	info := f.Info()
	if fn, ok := calleeObj(info, call).(*types.Func); ok {
		if g := a.p.funcs[funcID(fn)]; g != nil && g.Decl.Body != nil {
			for e := range a.must(g) {
				out[e] = true
			}
		}
	}
	for _, arg := range call.Args {
		if lit, ok := ast.Unparen(arg).(*ast.FuncLit); ok {
			for e := range a.mustOfBody(f, lit) {
				out["fn:"+strings.TrimPrefix(strings.TrimPrefix(e, "fn:"), "go:")] = true
			}
		}
	}
	return out
}

func (a *effAnalysis) goEffects(f *FuncInfo, g *ast.GoStmt) map[string]bool {
	out := map[string]bool{}
	var src map[string]bool
	if lit, ok := ast.Unparen(g.Call.Fun).(*ast.FuncLit); ok {
		src = a.mustOfBody(f, lit)
	} else {
		src = a.callEffects(f, g.Call)
	}
	for e := range src {
		out["go:"+strings.TrimPrefix(strings.TrimPrefix(e, "fn:"), "go:")] = true
	}
	return out
}

// must computes the must-effects of a declared function (memoized; a function in progress contributes nothing).
func (a *effAnalysis) must(f *FuncInfo) map[string]bool {
	if m, ok := a.memo[f.ID]; ok {
		return m
	}
	if a.inPro[f.ID] {
		return nil
	}
	a.inPro[f.ID] = true
	m := a.mustOfBody(f, nil)
	delete(a.inPro, f.ID)
	a.memo[f.ID] = m
	return m
}

// nodeEffects: effects of one CFG node (calls in it, outside nested literals; go statements)
func (a *effAnalysis) nodeEffects(f *FuncInfo, b *Body, n ast.Node) map[string]bool {
	out := map[string]bool{}
	if g, ok := n.(*ast.GoStmt); ok {
		for e := range a.goEffects(f, g) {
			out[e] = true
		}
		return out
	}
	if _, ok := n.(*ast.DeferStmt); ok {
		return out
	}
	for _, call := range callsIn(n) {
		for e := range a.callEffects(f, call) {
			out[e] = true
		}
	}
	return out
}

func (a *effAnalysis) mustOfBody(f *FuncInfo, lit *ast.FuncLit) map[string]bool {
	var b *Body
	if lit == nil {
		b = a.p.BodyOf(f)
	} else {
		b = a.p.LitBody(f, lit)
	}
	// candidate effects and the nodes carrying them
	cands := map[string]bool{}
	perNode := map[ast.Node]map[string]bool{}
	for _, blk := range b.G.Blocks {
		for _, n := range blk.Nodes {
			effs := a.nodeEffects(f, b, n)
			if len(effs) > 0 {
				perNode[n] = effs
				for e := range effs {
					cands[e] = true
				}
			}
		}
	}
	out := map[string]bool{}
	for e := range cands {
		if ok, _ := a.passesOnEverySuccess(b, perNode, e); ok {
			out[e] = true
		}
	}
	return out
}

// passesOnEverySuccess: every return that may be a success is preceded by a node with effect e. Returns a return
// statement (or nil for the fall-off end) that is reachable without it.
func (a *effAnalysis) passesOnEverySuccess(b *Body, perNode map[ast.Node]map[string]bool, e string) (bool, ast.Node) {
	const no, yes = 1, 2
	ok := true
	nSucc := 0
	var where ast.Node
	b.run(flowSpec{
		entry: no,
		node: func(n ast.Node, s uint64) uint64 {
			if perNode[n][e] {
				return yes
			}
			return s
		},
		exit: func(blk *cfg.Block, ret *ast.ReturnStmt, s uint64) {
			if ret != nil && b.classifyReturn(ret) == retFailure {
				return
			}
			nSucc++
			if s&no != 0 {
				ok = false
				if where == nil {
					if ret != nil {
						where = ret
					} else {
						where = b.Block
					}
				}
			}
		},
	})
	if nSucc == 0 {
		return false, nil
	}
	return ok, where
}

// genEffdomTable prints the table of the tree under analysis.
func genEffdomTable(p *Prog, path string) {
	a := p.effdom()
	table := map[string][]string{}
	for _, f := range p.AllFuncs() {
		if f.Decl.Body == nil {
			continue
		}
		var effs []string
		for e := range a.must(f) {
			effs = append(effs, e)
		}
		if len(effs) == 0 {
			continue
		}
		sort.Strings(effs)
		table[f.ID] = effs
	}
	buf, _ := json.MarshalIndent(table, "", " ")
	if err := os.WriteFile(path, append(buf, '\n'), 0o644); err != nil {
		undecided("cannot write %s: %v", path, err)
	}
}

// checkEffectDominance: rule over the functions of pkgs that have table entries.
func checkEffectDominance(c *Ctx, rule string, pkgs ...string) int {
	p := c.P
	a := p.effdom()
	table := loadEffdomTable()
	n := 0
	for _, pk := range pkgs {
		for _, f := range p.FuncsIn(pk) {
			want := table[f.ID]
			if len(want) == 0 || f.Decl.Body == nil {
				continue
			}
			have := a.must(f)
			for _, e := range want {
				n++
				if have[e] {
					c.ok(rule, f.ID+":"+e, p.Pos(f.Decl.Pos()), "every possibly successful return passes "+e)
					continue
				}
				// locate an offending return for the report
				b := p.BodyOf(f)
				perNode := map[ast.Node]map[string]bool{}
				for _, blk := range b.G.Blocks {
					for _, nd := range blk.Nodes {
						if effs := a.nodeEffects(f, b, nd); len(effs) > 0 {
							perNode[nd] = effs
						}
					}
				}
				_, where := a.passesOnEverySuccess(b, perNode, e)
				at := p.Pos(f.Decl.Pos())
				if where != nil {
					at = p.Pos(where.Pos())
				}
				c.fail(rule, f.ID+":"+e, at, f.ID+" can now return (possibly successfully) without "+e+", which every such return of the reviewed tree passed (directly or inside a callee): a shortcut, cache or early return around an operation the function's answer depended on")
			}
		}
	}
	return n
}
