package main

import (
	"fmt"
	"go/ast"
	"go/parser"
	"go/types"
	"sort"
	"strings"

	"golang.org/x/tools/go/packages"
)

// withFile returns a copy of the loaded program in which one source file of one repo package is replaced by new
// contents, re-parsing that file and re-type-checking only its package against the already loaded types of its
// imports. It is valid only for edits that leave the package's declared API unchanged (function bodies): packages
// that import the edited one keep their type information. If the API changed, or the file does not parse or
// type-check, ok is false and why says so (callers fall back to a full load through the overlay, or count the
// mutant as stillborn).
func (p *Prog) withFile(absPath string, src []byte) (np *Prog, ok bool, why string) {
	var pk *packages.Package
	idx := -1
	for _, cand := range p.All {
		for i, fn := range cand.CompiledGoFiles {
			if fn == absPath {
				pk, idx = cand, i
			}
		}
	}
	if pk == nil || idx >= len(pk.Syntax) {
		return nil, false, "file is not part of a loaded package"
	}
	file, err := parser.ParseFile(p.Fset, absPath, src, parser.ParseComments)
	if err != nil {
		return nil, false, "does not type-check: " + err.Error()
	}
	files := make([]*ast.File, len(pk.Syntax))
	copy(files, pk.Syntax)
	files[idx] = file
	info := &types.Info{
		Types:      map[ast.Expr]types.TypeAndValue{},
		Defs:       map[*ast.Ident]types.Object{},
		Uses:       map[*ast.Ident]types.Object{},
		Implicits:  map[ast.Node]types.Object{},
		Instances:  map[*ast.Ident]types.Instance{},
		Scopes:     map[ast.Node]*types.Scope{},
		Selections: map[*ast.SelectorExpr]*types.Selection{},
	}
	var firstErr error
	conf := types.Config{
		Importer: mapImporter{pk.Imports},
		Sizes:    pk.TypesSizes,
		Error: func(e error) {
			if firstErr == nil {
				firstErr = e
			}
		},
	}
	tpkg, _ := conf.Check(pk.PkgPath, p.Fset, files, info)
	if firstErr != nil {
		return nil, false, "does not type-check: " + firstErr.Error()
	}
	if a, b := apiString(pk.Types), apiString(tpkg); a != b {
		return nil, false, "declared API of the package changed"
	}
	npk := *pk
	npk.Syntax = files
	npk.Types = tpkg
	npk.TypesInfo = info
	np = &Prog{Fset: p.Fset, Pkgs: map[string]*packages.Package{}, RepoDir: p.RepoDir, Tags: p.Tags,
		funcs: map[string]*FuncInfo{}, byObj: map[*types.Func]*FuncInfo{}, litOwner: map[*ast.FuncLit]*FuncInfo{}}
	for rel, x := range p.Pkgs {
		if x == pk {
			np.Pkgs[rel] = &npk
		} else {
			np.Pkgs[rel] = x
		}
	}
	for _, x := range p.All {
		if x == pk {
			np.All = append(np.All, &npk)
		} else {
			np.All = append(np.All, x)
		}
	}
	for _, x := range np.All {
		np.indexPkg(x)
	}
	return np, true, ""
}

type mapImporter struct{ imports map[string]*packages.Package }

func (m mapImporter) Import(path string) (*types.Package, error) {
	if path == "unsafe" {
		return types.Unsafe, nil
	}
	if pk := m.imports[path]; pk != nil && pk.Types != nil {
		return pk.Types, nil
	}
	return nil, fmt.Errorf("import %q is not among the package's loaded imports", path)
}

// apiString renders every package-level object and method with its type: equal strings mean dependants' type
// information stays valid.
func apiString(pk *types.Package) string {
	var lines []string
	scope := pk.Scope()
	q := func(p *types.Package) string { return p.Path() }
	for _, name := range scope.Names() {
		o := scope.Lookup(name)
		lines = append(lines, objAPI(o, q))
		if tn, ok := o.(*types.TypeName); ok {
			if nt, ok := tn.Type().(*types.Named); ok {
				for i := 0; i < nt.NumMethods(); i++ {
					lines = append(lines, objAPI(nt.Method(i), q))
				}
				if st, ok := nt.Underlying().(*types.Struct); ok {
					lines = append(lines, st.String())
				}
			}
		}
	}
	sort.Strings(lines)
	return strings.Join(lines, "\n")
}

// objAPI renders an object's type without parameter names (renaming a parameter does not change the API).
func objAPI(o types.Object, q types.Qualifier) string {
	if fn, ok := o.(*types.Func); ok {
		sig := fn.Type().(*types.Signature)
		var parts []string
		tuple := func(t *types.Tuple) string {
			var xs []string
			for i := 0; i < t.Len(); i++ {
				xs = append(xs, types.TypeString(t.At(i).Type(), q))
			}
			return "(" + strings.Join(xs, ",") + ")"
		}
		recv := ""
		if sig.Recv() != nil {
			recv = types.TypeString(sig.Recv().Type(), q) + "."
		}
		parts = append(parts, "func "+recv+fn.Name()+tuple(sig.Params())+tuple(sig.Results()))
		if sig.Variadic() {
			parts = append(parts, "variadic")
		}
		return strings.Join(parts, " ")
	}
	return types.ObjectString(o, q)
}
