package main

import (
	"go/ast"
	"go/token"
	"go/types"
	"reflect"
	"regexp"
	"sort"
	"strings"
)

// C20 — metadata paths and descriptors round-trip: builder/parser agreement by abstract evaluation.

type builderSpec struct {
	id    string
	kind  string
	first string         // first path segment
	roles map[int]string // parameter index -> ArchivePathComponents field
	final bool           // IsFinalState expected for this builder's done variant
}

var archiveBuilders = []builderSpec{
	{"pkg/model.GetArchivePathToRepoDescriptor", "repo-descriptor", "repos", map[int]string{0: "Repo"}, false},
	{"pkg/model.GetArchivePathToBundle", "bundle-descriptor", "bundles", map[int]string{0: "Repo", 1: "BundleID"}, false},
	{"pkg/model.GetArchivePathToBundleFileList", "bundle-filelist", "bundles", map[int]string{0: "Repo", 1: "BundleID"}, false},
	{"pkg/model.GetArchivePathToLabel", "label", "labels", map[int]string{0: "Repo", 1: "LabelName"}, false},
	{"pkg/model.GetArchivePathToDiamond", "diamond-descriptor", "diamonds", map[int]string{0: "Repo", 1: "DiamondID"}, false},
	{"pkg/model.GetArchivePathToFinalDiamond", "diamond-descriptor", "diamonds", map[int]string{0: "Repo", 1: "DiamondID"}, true},
	{"pkg/model.GetArchivePathToInitialDiamond", "diamond-descriptor", "diamonds", map[int]string{0: "Repo", 1: "DiamondID"}, false},
	{"pkg/model.GetArchivePathToSplit", "split-descriptor", "diamonds", map[int]string{0: "Repo", 1: "DiamondID", 2: "SplitID"}, false},
	{"pkg/model.GetArchivePathToFinalSplit", "split-descriptor", "diamonds", map[int]string{0: "Repo", 1: "DiamondID", 2: "SplitID"}, true},
	{"pkg/model.GetArchivePathToInitialSplit", "split-descriptor", "diamonds", map[int]string{0: "Repo", 1: "DiamondID", 2: "SplitID"}, false},
	{"pkg/model.GetArchivePathToSplitFileList", "split-filelist", "diamonds", map[int]string{0: "Repo", 1: "DiamondID", 2: "SplitID", 3: "GenerationID"}, false},
	{"pkg/model.GetPathToContext", "context-descriptor", "contexts", map[int]string{0: "Context"}, false},
}

// prefix builders and the full-path builders they must be a prefix of (same leading parameters)
var prefixBuilders = map[string][]string{
	"pkg/model.GetArchivePathPrefixToBundles":  {"pkg/model.GetArchivePathToBundle", "pkg/model.GetArchivePathToBundleFileList"},
	"pkg/model.GetArchivePathPrefixToLabels":   {"pkg/model.GetArchivePathToLabel"},
	"pkg/model.GetArchivePathPrefixToDiamonds": {"pkg/model.GetArchivePathToDiamond", "pkg/model.GetArchivePathToSplit", "pkg/model.GetArchivePathToSplitFileList"},
	"pkg/model.GetArchivePathPrefixToSplits":   {"pkg/model.GetArchivePathToSplit", "pkg/model.GetArchivePathToSplitFileList"},
	"pkg/model.GetArchivePathPrefixToRepos":    {"pkg/model.GetArchivePathToRepoDescriptor"},
	"pkg/model.GetArchivePathPrefixToContexts": {"pkg/model.GetPathToContext"},
}

var sampleVals = map[int]string{0: "repo-a", 1: "1INzQ5TV4vAAfU2PbRFgPfnzEwR", 2: "split-x", 3: "1INzQ5TV4vAAfU2PbRFgPfnzEwS", 4: "18446744073709551615"}

func sampleFor(t ptemplate, idx string) map[int]string {
	vals := map[int]string{}
	for k, v := range sampleVals {
		vals[k] = v
	}
	for _, p := range t {
		if p.slot >= 0 && p.isUint {
			vals[p.slot] = idx
		}
		if p.slot >= 0 && p.opt {
			vals[p.slot] = ""
		}
	}
	return vals
}

func init() {
	register(&propSpec{
		id: "C20",
		explanation: "Static builder/parser agreement for metadata paths by abstract string evaluation (no code is run): each GetArchivePath*/GetPathToContext builder is evaluated to segment templates; every identity slot sits alone in a segment that GetArchivePathComponents (read as a decision table: clause per first-segment literal, constant-folded cs[k] indices) reads back into the same field; terminal literals / the file-index regexp constants accept the built terminal segment (including index 2^64-1); prefix builders end with '/' and are prefixes of the full paths; templates of different kinds cannot coincide; the uint64 index is parsed with ParseUint(_,10,64); consumable-store paths match the constant metaRe/flRe patterns and generated-path samples match genFileRe exactly (C04 sample table); validators' rune classes are exactly the documented ones; descriptor structs carry unique yaml tags equal to their json tags, none '-'. " +
			"Not decided: yaml.v2 itself, behaviour for hostile names beyond what the validators exclude.",
		run: runC20,
	})
	addWitness(witness{Prop: "C20", Name: "parser-position-shift", File: "pkg/model/paths.go",
		Old: "\t\t\tLabelName:       cs[labelPos-1],\n\t\t\tRepo:            cs[labelPos-2],", New: "\t\t\tLabelName:       cs[labelPos-2],\n\t\t\tRepo:            cs[labelPos-1],",
		Expect: "builder-parser"})
	addWitness(witness{Prop: "C20", Name: "descriptor-file-renamed-in-builder", File: "pkg/model/bundle.go",
		Old: "return fmt.Sprint(getArchivePathToBundles(), repo, \"/\", bundleID, \"/\", bundleDescriptorFile)", New: "return fmt.Sprint(getArchivePathToBundles(), repo, \"/\", bundleID, \"/\", \"bundle.yml\")",
		Expect: "builder-parser"})
	addWitness(witness{Prop: "C20", Name: "atoi-index", File: "pkg/model/bundle.go",
		Old:    "\t\tindex, err := strconv.ParseUint(flMatch[2], 10, 64)\n\t\tif err != nil {\n\t\t\treturn ConsumableStorePathMetadata{}, err\n\t\t}\n\t\tinfo.Index = index",
		New:    "\t\tindex, err := strconv.Atoi(flMatch[2])\n\t\tif err != nil {\n\t\t\treturn ConsumableStorePathMetadata{}, err\n\t\t}\n\t\tinfo.Index = uint64(index)",
		Expect: "numeric-width"})
	addWitness(witness{Prop: "C20", Name: "prefix-loses-separator", File: "pkg/model/bundle.go",
		Old: "\treturn fmt.Sprint(getArchivePathToBundles(), repo+\"/\")", New: "\treturn fmt.Sprint(getArchivePathToBundles(), repo)",
		Expect: "prefix"})
	addWitness(witness{Prop: "C20", Name: "validator-dash-for-hyphen", File: "pkg/model/repo.go",
		Old: "!unicode.Is(unicode.Hyphen, c) {", New: "!unicode.Is(unicode.Dash, c) {",
		Expect: "validators"})
	addWitness(witness{Prop: "C20", Name: "yaml-tag-dropped", File: "pkg/model/label.go",
		Old: "BundleID     string        `json:\"id\" yaml:\"id\"`", New: "BundleID     string        `json:\"id\" yaml:\"-\"`",
		Expect: "descriptor-tags"})
	addWitness(witness{Prop: "C20", Name: "file-index-regexp-narrowed", File: "pkg/model/paths.go",
		Old: "`(\\d+)\\.yaml$`)", New: "`(\\d{1,9})\\.yaml$`)",
		Expect: "builder-parser"})
}

type evaluatedBuilder struct {
	spec  builderSpec
	f     *FuncInfo
	tmpls []ptemplate
}

func evalArchiveBuilders(c *Ctx) []evaluatedBuilder {
	pathNarrowings = map[string]string{} // per evaluation (several programs are analysed in one process: witnesses, mutants)
	p := c.P
	var out []evaluatedBuilder
	for _, bs := range archiveBuilders {
		f := p.Func(bs.id)
		ts, why := evalBuilder(p, f)
		if why != "" || len(ts) == 0 {
			undecided("path builder %s cannot be evaluated abstractly (%s): the builder/parser agreement cannot be decided", bs.id, why)
		}
		out = append(out, evaluatedBuilder{bs, f, ts})
	}
	return out
}

// clauseConstants collects, per first-segment clause of the parser, the string constants compared with a segment
// and the regexp variables applied to one.
func parserAccepts(p *Prog, f *FuncInfo) (lits map[string]map[string]bool, regexps map[string][]*regexp.Regexp) {
	info := f.Info()
	lits = map[string]map[string]bool{}
	regexps = map[string][]*regexp.Regexp{}
	ast.Inspect(f.Decl.Body, func(n ast.Node) bool {
		cc, ok := n.(*ast.CaseClause)
		if !ok || len(cc.List) != 1 {
			return true
		}
		first, ok := constString(info, cc.List[0])
		if !ok {
			return true
		}
		if _, isIdent := info.TypeOf(cc.List[0]).Underlying().(*types.Basic); !isIdent {
			return true
		}
		if lits[first] == nil {
			lits[first] = map[string]bool{}
		}
		ast.Inspect(cc, func(m ast.Node) bool {
			if be, ok := m.(*ast.BinaryExpr); ok && (be.Op == token.EQL || be.Op == token.NEQ) {
				for _, side := range []ast.Expr{be.X, be.Y} {
					if s, ok := constString(info, side); ok {
						lits[first][s] = true
					}
				}
			}
			if call, ok := m.(*ast.CallExpr); ok && calleeID(info, call) == "regexp.Regexp.MatchString" {
				if sel, ok := ast.Unparen(call.Fun).(*ast.SelectorExpr); ok {
					if id, ok := ast.Unparen(sel.X).(*ast.Ident); ok {
						if pat, ok := regexpOfVar(p, "pkg/model", id.Name); ok {
							if re, err := regexp.Compile(pat); err == nil {
								regexps[first] = append(regexps[first], re)
							}
						}
					}
				}
			}
			return true
		})
		return true
	})
	return
}

// regexpOfVar resolves a package-level *regexp.Regexp variable to its constant pattern, following one alias
// assignment (isSplitIndexFileRe = isBundleFileIndexRe).
func regexpOfVar(p *Prog, pkgRel, name string) (string, bool) {
	if pat, _, ok := constRegexpAssigned(p, pkgRel, name); ok {
		return pat, true
	}
	pk := p.Pkg(pkgRel)
	var alias string
	for _, file := range pk.Syntax {
		ast.Inspect(file, func(n ast.Node) bool {
			as, ok := n.(*ast.AssignStmt)
			if !ok || len(as.Lhs) != 1 || len(as.Rhs) != 1 {
				return true
			}
			if l, ok := as.Lhs[0].(*ast.Ident); ok && l.Name == name {
				if r, ok := as.Rhs[0].(*ast.Ident); ok {
					alias = r.Name
				}
			}
			return true
		})
	}
	if alias != "" && alias != name {
		if pat, _, ok := constRegexpAssigned(p, pkgRel, alias); ok {
			return pat, true
		}
	}
	return "", false
}

func runC20(c *Ctx) {
	p := c.P
	c.assume("names satisfy the validators (no '/' inside a repo, label or ID); yaml.v2 round-trips tagged fields")
	builders := evalArchiveBuilders(c)
	parser := p.Func("pkg/model.GetArchivePathComponents")
	rows, why := parserTable(p, parser)
	if why != "" {
		undecided("parser table: %s", why)
	}
	lits, res := parserAccepts(p, parser)

	for _, eb := range builders {
		for ti, t := range eb.tmpls {
			key := eb.spec.id + "#" + itoa(ti+1)
			segs := t.segments()
			pos := p.Pos(eb.f.Decl.Pos())
			if len(segs) < 2 || len(segs[0]) != 1 || segs[0][0].slot >= 0 || segs[0][0].lit != eb.spec.first {
				c.fail("builder-parser.first-segment", key, pos, "template `"+t.String()+"` does not start with the literal segment "+eb.spec.first+"/: the parser dispatches on it")
				continue
			}
			c.ok("builder-parser.first-segment", key, pos, "template `"+t.String()+"` starts with "+eb.spec.first+"/")
			// each role slot alone in its segment
			slotSeg := map[int]int{}
			okAlone := true
			for si, sg := range segs {
				for _, part := range sg {
					if part.slot >= 0 {
						if _, isRole := eb.spec.roles[part.slot]; isRole {
							if len(sg) != 1 {
								okAlone = false
							}
							slotSeg[part.slot] = si
						}
					}
				}
			}
			for pi := range eb.spec.roles {
				if _, ok := slotSeg[pi]; !ok {
					okAlone = false
				}
			}
			if !okAlone {
				c.fail("builder-parser.slots", key, pos, "an identity parameter is missing from, or not alone in, its path segment in `"+t.String()+"`")
				continue
			}
			// a parser row of the clause that reads every role from that segment and the file name from the last
			last := len(segs) - 1
			found := false
			for _, r := range rows {
				if r.First != eb.spec.first {
					continue
				}
				match := true
				for pi, role := range eb.spec.roles {
					if k, ok := r.Fields[role]; !ok || k != slotSeg[pi] {
						match = false
					}
				}
				if eb.spec.first != "contexts" {
					if k, ok := r.Fields["ArchiveFileName"]; !ok || k != last {
						match = false
					}
				}
				if match {
					found = true
				}
			}
			roleNames := []string{}
			for pi, role := range eb.spec.roles {
				roleNames = append(roleNames, role+"@"+itoa(slotSeg[pi]))
			}
			sort.Strings(roleNames)
			c.check(found, "builder-parser.slots", key, pos,
				"the parser reads back "+strings.Join(roleNames, ",")+" and the file name @"+itoa(last),
				"no ArchivePathComponents literal in the parser's \""+eb.spec.first+"\" clause reads "+strings.Join(roleNames, ",")+" (file name @"+itoa(last)+") as built by `"+t.String()+"`: the path does not parse back to its values")
			// terminal segment accepted
			term := segs[last]
			if eb.spec.first == "contexts" {
				c.ok("builder-parser.terminal", key, pos, "context paths: the parser accepts any file name")
			} else if len(term) == 1 && term[0].slot < 0 {
				c.check(lits[eb.spec.first][term[0].lit], "builder-parser.terminal", key, pos,
					"terminal literal "+term[0].lit+" is one of the constants the parser compares with",
					"the builder ends with the literal \""+term[0].lit+"\" which the parser's \""+eb.spec.first+"\" clause never compares with: the path is rejected or mis-classified")
			} else {
				okRe := len(res[eb.spec.first]) > 0
				var tried []string
				for _, idx := range []string{"0", "7", "1000", "18446744073709551615"} {
					s := term.instantiate(sampleFor(t, idx))
					tried = append(tried, s)
					matched := false
					for _, re := range res[eb.spec.first] {
						if re.MatchString(s) {
							matched = true
						}
					}
					if !matched {
						okRe = false
					}
				}
				c.check(okRe, "builder-parser.terminal", key, pos,
					"terminal segments "+strings.Join(tried, ", ")+" match the parser's constant file-index pattern",
					"a terminal segment among "+strings.Join(tried, ", ")+" is not matched by the constant pattern the parser applies: index files (up to 2^64-1) do not parse back")
			}
		}
	}
	c.requireInstances("builder-parser.slots", 12)

	// IsFinalState: done descriptors
	{
		info := parser.Info()
		okFinal := 0
		ast.Inspect(parser.Decl.Body, func(n ast.Node) bool {
			kv, ok := n.(*ast.KeyValueExpr)
			if !ok {
				return true
			}
			if id, ok := kv.Key.(*ast.Ident); !ok || id.Name != "IsFinalState" {
				return true
			}
			if be, ok := ast.Unparen(kv.Value).(*ast.BinaryExpr); ok && be.Op == token.EQL {
				for _, side := range []ast.Expr{be.X, be.Y} {
					if s, ok := constString(info, side); ok && (s == "diamond-done.yaml" || s == "split-done.yaml") {
						okFinal++
					}
				}
			}
			return true
		})
		c.check(okFinal >= 2, "builder-parser.final-state", parser.ID, p.Pos(parser.Decl.Pos()), "IsFinalState <=> the file name is the done descriptor (diamond and split)", "IsFinalState is no longer derived from the done descriptor file names")
	}

	// prefixes
	for pid, fulls := range prefixBuilders {
		pf := p.Func(pid)
		pts, why := evalBuilder(p, pf)
		if why != "" || len(pts) == 0 {
			undecided("prefix builder %s cannot be evaluated (%s)", pid, why)
		}
		pt := pts[0]
		ps, okNP := instNoOpt(pts, sampleVals)
		if !okNP {
			undecided("prefix builder %s evaluates to %d templates", pid, len(pts))
		}
		c.check(strings.HasSuffix(ps, "/"), "prefix.ends-with-separator", pid, p.Pos(pf.Decl.Pos()),
			"`"+pt.String()+"` ends with the separator",
			"prefix `"+pt.String()+"` does not end with '/': a listing of repo \"exp\" also returns the keys of \"exp-2\" and \"experiment\"")
		for _, fid := range fulls {
			for _, eb := range builders {
				if eb.spec.id != fid {
					continue
				}
				for _, t := range eb.tmpls {
					fs := t.instantiate(sampleFor(t, "0"))
					c.check(strings.HasPrefix(fs, ps), "prefix.is-prefix-of-paths", pid+"<"+fid, p.Pos(pf.Decl.Pos()),
						ps+" is a prefix of "+fs, "prefix "+ps+" is not a prefix of the path "+fs+" built for the same repository: listings miss these objects")
				}
			}
		}
	}

	// non-coincidence of kinds
	{
		n := 0
		for i := 0; i < len(builders); i++ {
			for j := i + 1; j < len(builders); j++ {
				if builders[i].spec.kind == builders[j].spec.kind {
					continue
				}
				for _, t1 := range builders[i].tmpls {
					for _, t2 := range builders[j].tmpls {
						n++
						if mayCoincide(t1, t2) {
							c.fail("non-coincidence", builders[i].spec.id+"~"+builders[j].spec.id, p.Pos(builders[i].f.Decl.Pos()), "paths `"+t1.String()+"` ("+builders[i].spec.kind+") and `"+t2.String()+"` ("+builders[j].spec.kind+") can coincide for some values")
						}
					}
				}
			}
		}
		c.ok("non-coincidence", "all-pairs", "-", itoa(n)+" template pairs of different kinds cannot produce the same key")
	}

	// numeric width: builders format their numeric slots with a type that covers the slot's own type
	{
		ids := make([]string, 0, len(pathNarrowings))
		for id := range pathNarrowings {
			ids = append(ids, id)
		}
		sort.Strings(ids)
		for _, id := range ids {
			c.fail("numeric-width", id+":format", p.Pos(p.Func(id).Decl.Pos()), id+" "+pathNarrowings[id])
		}
		if len(ids) == 0 {
			c.ok("numeric-width", "pkg/model:builders-format", "-", "no path builder formats an unsigned 64-bit slot through a signed or narrower type")
		}
	}
	// numeric width
	{
		f := p.Func("pkg/model.GetConsumableStorePathMetadata")
		info := f.Info()
		found := false
		ast.Inspect(f.Decl.Body, func(n ast.Node) bool {
			call, ok := n.(*ast.CallExpr)
			if !ok || !strings.HasPrefix(calleeID(info, call), "strconv.") {
				return true
			}
			found = true
			id := calleeID(info, call)
			okW := id == "strconv.ParseUint" && len(call.Args) == 3 && describeExpr(f, call.Args[1], 0) == "const:10" && describeExpr(f, call.Args[2], 0) == "const:64"
			c.check(okW, "numeric-width", callKey(f, call), p.Pos(call.Pos()), "the uint64 file-list index is parsed with strconv.ParseUint(_, 10, 64)",
				"the file-list index (a uint64) is parsed with "+id+": indices above the parser's range do not round-trip (the builder's own inverse check panics)")
			return true
		})
		if !found {
			c.fail("numeric-width", f.ID, p.Pos(f.Decl.Pos()), "no numeric parse of the file-list index found")
		}
		// ReverseIndexChunk: scans %d into a uint64
		g := p.Func("pkg/model.ReverseIndexChunk")
		okScan := false
		ast.Inspect(g.Decl.Body, func(n ast.Node) bool {
			if call, ok := n.(*ast.CallExpr); ok && calleeID(g.Info(), call) == "fmt.Sscanf" && len(call.Args) == 3 {
				if u, ok := ast.Unparen(call.Args[2]).(*ast.UnaryExpr); ok {
					if b, ok := g.Info().TypeOf(u.X).Underlying().(*types.Basic); ok && b.Kind() == types.Uint64 {
						okScan = true
					}
				}
			}
			return true
		})
		c.check(okScan, "numeric-width", g.ID, p.Pos(g.Decl.Pos()), "chunk index scanned into a uint64", "ReverseIndexChunk no longer scans the chunk index into a uint64")
		// builder/parser of reverse index chunk agree on the literal frame
		rb := p.Func("pkg/model.ReverseIndexFile")
		rts, why := evalBuilder(p, rb)
		if why != "" {
			undecided("ReverseIndexFile: %s", why)
		}
		pat := ""
		ast.Inspect(g.Decl.Body, func(n ast.Node) bool {
			if vs, ok := n.(*ast.ValueSpec); ok && len(vs.Values) == 1 {
				if s, ok := constString(g.Info(), vs.Values[0]); ok && strings.Contains(s, "%d") {
					pat = s
				}
			}
			return true
		})
		okFrame := false
		for _, t := range rts {
			segs := t.segments()
			lastSeg := segs[len(segs)-1].instantiate(map[int]string{0: "%d"})
			if lastSeg == pat {
				okFrame = true
			}
		}
		c.check(okFrame && pat != "", "numeric-width", rb.ID+"~ReverseIndexChunk", p.Pos(rb.Decl.Pos()), "chunk file name pattern "+pat+" is what ReverseIndexFile builds", "ReverseIndexFile builds a base name that ReverseIndexChunk's pattern `"+pat+"` does not scan")
	}

	// consumable store paths vs constant regexps
	{
		metaPat, _, ok1 := constRegexpAssigned(p, "pkg/model", "metaRe")
		flPat, _, ok2 := constRegexpAssigned(p, "pkg/model", "flRe")
		genPat, _, ok3 := constRegexpAssigned(p, "pkg/model", "genFileRe")
		if !ok1 || !ok2 || !ok3 {
			c.fail("consumable-paths", "pkg/model.regexps", "-", "metaRe / flRe / genFileRe are no longer constant patterns")
		} else {
			metaRe, flRe, genRe := regexp.MustCompile(metaPat), regexp.MustCompile(flPat), regexp.MustCompile(genPat)
			db := p.Func("pkg/model.GetConsumablePathToBundle")
			fb := p.Func("pkg/model.GetConsumablePathToBundleFileList")
			for _, f := range []*FuncInfo{db, fb} {
				// the path is the first local string definition (the function validates it against the inverse)
				var tmpl []ptemplate
				ast.Inspect(f.Decl.Body, func(n ast.Node) bool {
					if as, ok := n.(*ast.AssignStmt); ok && tmpl == nil && len(as.Rhs) == 1 {
						if call, ok := as.Rhs[0].(*ast.CallExpr); ok && calleeID(f.Info(), call) == "fmt.Sprint" {
							pe := &pathEval{p: p}
							env := map[*types.Var][]ptemplate{}
							sig := f.Obj.Type().(*types.Signature)
							for i := 0; i < sig.Params().Len(); i++ {
								part := tpart{slot: i}
								if b, ok := sig.Params().At(i).Type().Underlying().(*types.Basic); ok && b.Info()&types.IsInteger != 0 {
									part.isUint = true
								}
								env[sig.Params().At(i)] = []ptemplate{{part}}
							}
							tmpl = pe.evalExpr(f, call, env)
						}
					}
					return true
				})
				if len(tmpl) != 1 {
					c.fail("consumable-paths", f.ID, p.Pos(f.Decl.Pos()), "cannot evaluate the consumable path built here")
					continue
				}
				t := tmpl[0].normalize()
				for _, idx := range []string{"0", "18446744073709551615"} {
					s := t.instantiate(map[int]string{0: "1INzQ5TV4vAAfU2PbRFgPfnzEwR", 1: idx})
					mm := metaRe.FindStringSubmatch(s)
					okM := mm != nil
					isFL := okM && flRe.MatchString(mm[1])
					wantFL := f == fb
					okAll := okM && isFL == wantFL && genRe.MatchString(s)
					if okAll && wantFL {
						fm := flRe.FindStringSubmatch(mm[1])
						okAll = fm != nil && fm[1] == "1INzQ5TV4vAAfU2PbRFgPfnzEwR" && fm[2] == idx
					}
					if okAll && !wantFL {
						okAll = mm[1] == "1INzQ5TV4vAAfU2PbRFgPfnzEwR"
					}
					c.check(okAll, "consumable-paths", f.ID+"~"+idx, p.Pos(f.Decl.Pos()), s+" is classified and decomposed by the constant metaRe/flRe patterns and recognised as generated",
						"consumable path "+s+" is not decomposed back to its bundle ID/index by the constant patterns, or is not recognised as a generated path")
					if f == db {
						break
					}
				}
			}
			// generated path builders
			for _, gid := range []string{"pkg/model.GenerateConflictPath", "pkg/model.GenerateCheckpointPath"} {
				gf := p.Func(gid)
				ts, why := evalBuilder(p, gf)
				if why != "" || len(ts) != 1 {
					undecided("%s cannot be evaluated (%s)", gid, why)
				}
				s := ts[0].instantiate(map[int]string{0: "split-1", 1: "dir/file.txt"})
				want := ".conflicts/split-1/dir/file.txt"
				if gid == "pkg/model.GenerateCheckpointPath" {
					want = ".checkpoints/split-1/dir/file.txt"
				}
				c.check(s == want && genRe.MatchString(s), "consumable-paths.generated-builders", gid, p.Pos(gf.Decl.Pos()), s+" is the documented location and is recognised as generated", gid+" builds `"+s+"` (documented: "+want+"), or the generated-path pattern does not recognise it")
			}
		}
	}

	// validators' rune classes
	for _, v := range []struct {
		fn   string
		want []string
	}{
		{"pkg/model.ValidateRepo", []string{"unicode.Is(unicode.Hyphen)", "unicode.IsDigit", "unicode.IsLetter"}},
		{"pkg/model.ValidateLabel", []string{"unicode.Is(unicode.Hyphen)", "unicode.Is(unicode.Pc)", "unicode.IsDigit", "unicode.IsLetter"}},
	} {
		f := p.Func(v.fn)
		info := f.Info()
		var got []string
		var theIf *ast.IfStmt
		ast.Inspect(f.Decl.Body, func(n ast.Node) bool {
			rs, ok := n.(*ast.RangeStmt)
			if !ok || !isStringTyped(info, rs.X) {
				return true
			}
			for _, st := range rs.Body.List {
				if ifs, ok := st.(*ast.IfStmt); ok {
					theIf = ifs
				}
			}
			return true
		})
		okShape := theIf != nil
		if theIf != nil {
			var okR bool
			got, okR = rejectedUnless(p, f, theIf.Cond)
			okShape = okShape && okR
			// the rejecting branch returns an error
			if l := len(theIf.Body.List); l == 0 {
				okShape = false
			} else if _, ok := theIf.Body.List[l-1].(*ast.ReturnStmt); !ok {
				okShape = false
			}
		}
		sort.Strings(got)
		c.check(okShape && reflect.DeepEqual(got, v.want), "validators.rune-classes", v.fn, p.Pos(f.Decl.Pos()),
			"accepted runes are exactly "+strings.Join(v.want, " | "),
			"the name alphabet accepted by "+v.fn+" is "+strings.Join(got, " | ")+", documented: "+strings.Join(v.want, " | "))
	}
	// CreateRepo validates before writing
	{
		f := p.Func("pkg/core.CreateRepo")
		b := p.BodyOf(f)
		bad, nB := b.dominatedBy(callTo("pkg/model.ValidateRepo"), callTo("pkg/storage.Store.Put", "pkg/storage.StoreCRC.PutCRC"))
		c.check(nB > 0 && len(bad) == 0, "validators.applied", f.ID, p.Pos(f.Decl.Pos()), "the repo descriptor is written only after ValidateRepo", "CreateRepo can write the descriptor without ValidateRepo")
		n := checkNoSwallow(c, "validators.applied", f, func(id string) bool { return id == "pkg/model.ValidateRepo" }, nil)
		_ = n
	}

	// descriptor tags
	for _, tn := range []string{"RepoDescriptor", "BundleDescriptor", "BundleEntries", "BundleEntry", "LabelDescriptor", "DiamondDescriptor", "SplitDescriptor", "Context", "Contributor", "Entry"} {
		obj := p.Pkg("pkg/model").Types.Scope().Lookup(tn)
		if obj == nil {
			undecided("descriptor type pkg/model.%s not found", tn)
		}
		st, ok := obj.Type().Underlying().(*types.Struct)
		if !ok {
			continue
		}
		seen := map[string]string{}
		for i := 0; i < st.NumFields(); i++ {
			fld := st.Field(i)
			if !fld.Exported() {
				continue
			}
			tag := reflect.StructTag(st.Tag(i))
			y, hasY := tag.Lookup("yaml")
			j, hasJ := tag.Lookup("json")
			yname := strings.Split(y, ",")[0]
			jname := strings.Split(j, ",")[0]
			key := "pkg/model." + tn + "." + fld.Name()
			switch {
			case !hasY || yname == "" || yname == "-":
				if fld.Embedded() {
					continue
				}
				c.fail("descriptor-tags", key, p.Pos(fld.Pos()), "exported descriptor field has no usable yaml tag (`"+string(tag)+"`): it is not written, so the descriptor does not read back equal")
			case seen[yname] != "":
				c.fail("descriptor-tags", key, p.Pos(fld.Pos()), "yaml name \""+yname+"\" is used by both "+seen[yname]+" and "+fld.Name())
			case hasJ && jname != yname:
				c.fail("descriptor-tags", key, p.Pos(fld.Pos()), "yaml name \""+yname+"\" differs from json name \""+jname+"\"")
			default:
				c.ok("descriptor-tags", key, p.Pos(fld.Pos()), "yaml:\""+y+"\"")
			}
			seen[yname] = fld.Name()
		}
	}
	c.requireInstances("descriptor-tags", 40)
	checkReusedDecodeTargets(c, "descriptor-tags.reused-targets")
	// generated-path detection recognises exactly the reserved locations (shared with C04)
	checkGeneratedRegexp(c)
	checkErrBranchFails(c, "errors-surface.error-branch-fails", errBranchExceptions, "pkg/model")
	checkStateToKeyTable(c, "builder.state-to-key")
	checkModelOptionSettersVerbatim(c, "descriptors.option-setters-verbatim")
	if checkUnmarshalIsPlain(c, "descriptors.unmarshal-is-plain") < 2 {
		c.fail("descriptors.unmarshal-is-plain", "pkg/model:decoders", "-", "expected at least 2 yaml decoders in pkg/model")
	}
}

// mayCoincide: can two templates produce the same string (segment-wise unification; slots match any text without '/')?
func mayCoincide(a, b ptemplate) bool {
	sa, sb := a.segments(), b.segments()
	if len(sa) != len(sb) {
		return false
	}
	for i := range sa {
		if !segMayMatch(sa[i], sb[i]) {
			return false
		}
	}
	return true
}

func segMayMatch(a, b ptemplate) bool {
	alit := len(a) == 1 && a[0].slot < 0
	blit := len(b) == 1 && b[0].slot < 0
	if len(a) == 0 || len(b) == 0 {
		return len(a) == len(b)
	}
	switch {
	case alit && blit:
		return a[0].lit == b[0].lit
	case alit:
		return litMatchesTemplate(a[0].lit, b)
	case blit:
		return litMatchesTemplate(b[0].lit, a)
	}
	// both contain slots: compare literal frames
	pa, sa := frame(a)
	pb, sb := frame(b)
	return (strings.HasPrefix(pa, pb) || strings.HasPrefix(pb, pa)) && (strings.HasSuffix(sa, sb) || strings.HasSuffix(sb, sa))
}

func frame(t ptemplate) (prefix, suffix string) {
	if len(t) > 0 && t[0].slot < 0 {
		prefix = t[0].lit
	}
	if len(t) > 0 && t[len(t)-1].slot < 0 {
		suffix = t[len(t)-1].lit
	}
	return
}

func litMatchesTemplate(lit string, t ptemplate) bool {
	pre, suf := frame(t)
	if len(t) == 1 && t[0].slot >= 0 {
		return true
	}
	return strings.HasPrefix(lit, pre) && strings.HasSuffix(lit, suf) && len(lit) >= len(pre)+len(suf)
}

// rejectedUnless reads a rejecting condition over one rune — `!A(c) && !B(c)`, `!(A(c) || B(c))`, `!isNameRune(c)` with
// a predicate helper that returns such a disjunction — and returns the classes whose members are NOT rejected.
func rejectedUnless(p *Prog, f *FuncInfo, cond ast.Expr) ([]string, bool) {
	switch e := ast.Unparen(cond).(type) {
	case *ast.BinaryExpr:
		if e.Op == token.LAND {
			l, ok1 := rejectedUnless(p, f, e.X)
			r, ok2 := rejectedUnless(p, f, e.Y)
			return append(l, r...), ok1 && ok2
		}
	case *ast.UnaryExpr:
		if e.Op == token.NOT {
			return acceptedRunes(p, f, e.X, 0)
		}
	}
	return nil, false
}

func acceptedRunes(p *Prog, f *FuncInfo, x ast.Expr, depth int) ([]string, bool) {
	switch e := ast.Unparen(x).(type) {
	case *ast.BinaryExpr:
		if e.Op == token.LOR {
			l, ok1 := acceptedRunes(p, f, e.X, depth)
			r, ok2 := acceptedRunes(p, f, e.Y, depth)
			return append(l, r...), ok1 && ok2
		}
	case *ast.CallExpr:
		id := calleeID(f.Info(), e)
		if id == "unicode.Is" && len(e.Args) == 2 {
			return []string{"unicode.Is(" + exprString(e.Args[0]) + ")"}, true
		}
		if strings.HasPrefix(id, "unicode.") {
			return []string{id}, true
		}
		// a predicate helper of the repository: a single `return <disjunction>`
		if h := p.FuncOpt(id); h != nil && h.Decl.Body != nil && depth < 2 && len(h.Decl.Body.List) == 1 {
			if r, ok := h.Decl.Body.List[0].(*ast.ReturnStmt); ok && len(r.Results) == 1 {
				return acceptedRunes(p, h, r.Results[0], depth+1)
			}
		}
		return []string{id}, true
	}
	return nil, false
}
